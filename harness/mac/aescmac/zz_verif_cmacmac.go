package aescmac

import (
	tinkpb "github.com/tink-crypto/tink-go/v2/proto/tink_go_proto"
	"github.com/tink-crypto/tink-go/v2/internal/verifh"
	"github.com/tink-crypto/tink-go/v2/insecuresecretdataaccess"
	"github.com/tink-crypto/tink-go/v2/internal/internalapi"
	"github.com/tink-crypto/tink-go/v2/internal/verifrt"
	"github.com/tink-crypto/tink-go/v2/internal/verifspec"
	macsubtle "github.com/tink-crypto/tink-go/v2/mac/subtle"
	"github.com/tink-crypto/tink-go/v2/secretdata"
)

func pickVariant(name string) (Variant, int) {
	k := verifrt.Choice(name, 4)
	return [...]Variant{VariantTink, VariantCrunchy, VariantLegacy, VariantNoPrefix}[k], k
}

func build() (m *fullMAC, keyBytes []byte, tagSize int, kind int, id uint32) {
	v, kind := pickVariant("variant")
	tagSize = 10 + verifrt.Choice("tsz", 7)
	keyBytes = verifrt.Bytes("key", 32)
	id = verifrt.Uint32("id")
	if kind == 3 {
		id = 0
	}
	params, err := NewParameters(ParametersOpts{KeySizeInBytes: 32, TagSizeInBytes: tagSize, Variant: v})
	verifrt.Assert(err == nil, "NewParameters accepts 32-byte keys and tags 10..16")
	k, err := NewKey(secretdata.NewBytesFromData(keyBytes, insecuresecretdataaccess.Token{}), params, id)
	verifrt.Assert(err == nil, "NewKey succeeds")
	mac, err := NewMAC(k, internalapi.Token{})
	verifrt.Assert(err == nil, "NewMAC succeeds")
	return mac.(*fullMAC), keyBytes, tagSize, kind, id
}

func specTag(key, msg []byte, tagSize, kind int, id uint32) []byte {
	m := append([]byte{}, msg...)
	if kind == 2 {
		m = append(m, 0)
	}
	return append(verifspec.Prefix(kind, id), verifspec.CMAC(key, m)[:tagSize]...)
}

func VerifH_cmacmac_compute() {
	m, key, t, kind, id := build()
	n := verifrt.Choice("n", 19)
	msg := verifrt.Bytes("msg", n)
	tag, err := m.ComputeMAC(msg)
	verifrt.Assert(err == nil, "ComputeMAC succeeds")
	verifrt.AssertEq(tag, specTag(key, msg, t, kind, id), "ComputeMAC == prefix || AES-CMAC(key, msg [|| 0x00 for LEGACY])[:tagSize]")
	tag2, _ := m.ComputeMAC(msg)
	verifrt.AssertEq(tag2, tag, "deterministic")
	verifrt.Assert(m.VerifyMAC(tag, msg) == nil, "VerifyMAC accepts ComputeMAC output")
	verifrt.Observe("tag", tag)
	verifrt.Reach("end")
}

func VerifH_cmacmac_verify() {
	m, key, t, kind, id := build()
	msg := verifrt.Bytes("msg", verifrt.Choice("n", 2))
	want := specTag(key, msg, t, kind, id)
	if verifrt.Choice("samelen", 2) == 0 {
		delta := verifrt.Bytes("delta", len(want))
		err := m.VerifyMAC(verifspec.XorDelta(want, delta), msg)
		verifrt.Assert((err == nil) == verifrt.EqBytes(delta, make([]byte, len(want))), "VerifyMAC accepts exactly the genuine tag")
	} else {
		l := [...]int{0, 4, 5, 6, len(want) - 1, len(want) + 1, len(want) + 2}[verifrt.Choice("len", 7)]
		verifrt.Assume(l != len(want) && l >= 0)
		cand := verifrt.Bytes("cand", l)
		for i := 0; i < l && i < len(want); i++ {
			cand[i] = want[i]
		}
		verifrt.Assert(m.VerifyMAC(cand, msg) != nil, "truncated or extended tag rejected")
	}
	verifrt.Reach("end")
}

func VerifH_cmacmac_validate() {
	ks := verifrt.Uint32("ks")
	ts := verifrt.Uint32("ts")
	err := macsubtle.ValidateCMACParams(ks, ts)
	verifrt.Assert((err == nil) == (ks == 32 && ts >= 10 && ts <= 16), "ValidateCMACParams accepts exactly 32-byte keys and tags 10..16")
	kl := verifrt.Choice("kl", 34)
	_, err = macsubtle.NewAESCMAC(verifrt.Bytes("k", kl), ts)
	verifrt.Assert((err == nil) == ((kl == 16 || kl == 24 || kl == 32) && ts >= 10 && ts <= 16), "NewAESCMAC accepts exactly AES key sizes and tags 10..16")
	verifrt.Reach("end")
}

func VerifH_c19_aescmac() {
	m, _, _, _, _ := build()
	verifh.CheckMACNoWrite(m)
}

func VerifH_serial_aescmac() {
	v, kind := pickVariant("variant")
	id := verifrt.Uint32("id")
	if kind == 3 {
		id = 0
	}
	tag := 10 + verifrt.Choice("tsz", 7)
	ks := [...]int{32, 16}[verifrt.Choice("ks", 2)] // both key sizes NewParameters accepts
	params, err := NewParameters(ParametersOpts{KeySizeInBytes: ks, TagSizeInBytes: tag, Variant: v})
	verifrt.Assert(err == nil, "NewParameters")
	k, err := NewKey(secretdata.NewBytesFromData(verifrt.Bytes("key", ks), insecuresecretdataaccess.Token{}), params, id)
	verifrt.Assert(err == nil, "NewKey")
	verifh.CheckKeyRoundTrip(k, &keySerializer{}, &keyParser{}, &parametersSerializer{}, &parametersParser{}, kind, id, typeURL, tinkpb.KeyData_SYMMETRIC)
}

func VerifH_c18_aescmac() {
	verifrt.EngineOnly()
	m, _, _, _, _ := build()
	verifh.CheckMACShared(m)
}
