package aescmac

import (
	"github.com/tink-crypto/tink-go/v2/internal/verifh"
	"github.com/tink-crypto/tink-go/v2/internal/verifrt"
	"github.com/tink-crypto/tink-go/v2/key"
	"github.com/tink-crypto/tink-go/v2/secretdata"
)

// C19, key object: see verifh.CheckSymKeyObject.
func VerifH_c19_aescmackey() {
	kind := verifrt.Choice("variant", 4)
	v := [...]Variant{VariantTink, VariantCrunchy, VariantLegacy, VariantNoPrefix}[kind]
	id := verifrt.Uint32("id")
	if kind == 3 {
		id = 0
	}
	ks := [...]int{16, 32}[verifrt.Choice("ks", 2)]
	params, err := NewParameters(ParametersOpts{KeySizeInBytes: ks, TagSizeInBytes: 16, Variant: v})
	verifrt.Assert(err == nil, "NewParameters")
	verifh.CheckSymKeyObject(ks, func(b secretdata.Bytes) (key.Key, error) { return NewKey(b, params, id) }, nwKeyBytes, nwPrefix, verifh.PrefixLen(kind))
}

func nwKeyBytes(k key.Key) secretdata.Bytes { return k.(*Key).KeyBytes() }
func nwPrefix(k key.Key) []byte             { return k.(*Key).OutputPrefix() }
