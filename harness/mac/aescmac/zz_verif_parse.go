package aescmac

import (
	"google.golang.org/protobuf/proto"

	"github.com/tink-crypto/tink-go/v2/insecuresecretdataaccess"
	"github.com/tink-crypto/tink-go/v2/internal/verifh"
	"github.com/tink-crypto/tink-go/v2/internal/verifrt"
	pb "github.com/tink-crypto/tink-go/v2/proto/aes_cmac_go_proto"
	tinkpb "github.com/tink-crypto/tink-go/v2/proto/tink_go_proto"
)

var parseVariants = [...]Variant{VariantTink, VariantCrunchy, VariantLegacy, VariantNoPrefix}

// VerifH_parse_aescmac: keyParser.ParseKey on hostile field values.
//
// Documented validity of an AES-CMAC key (AesCmacKey{version, key_value, params{tag_size}}):
// version 0; key 16 or 32 bytes; tag size in [10, 16]; SYMMETRIC key material; own type
// URL; prefix TINK/CRUNCHY/LEGACY/RAW; RAW => id 0. Absent params read as tag size 0: invalid.
func VerifH_parse_aescmac() {
	h := verifh.NewHostile()
	version, tag := verifrt.Uint32("version"), verifrt.Uint32("tag")
	n := h.Len("keylen", 32, 0, 1, 15, 16, 17, 24, 31, 33, 63, 64, 65)
	kv := verifrt.Bytes("key", n)
	msg := &pb.AesCmacKey{Version: version, Params: &pb.AesCmacParams{TagSize: tag}, KeyValue: kv}
	shape := h.Shape("shape", 3)
	var value []byte
	switch shape {
	case 1:
		msg.Params, tag = nil, 0
	case 2:
		version, tag, n, kv = 0, 0, 0, nil
	}
	if shape != 2 {
		var err error
		value, err = proto.Marshal(msg)
		verifrt.Assert(err == nil, "marshal")
	}
	if !h.Wrap(typeURL, value) {
		return
	}
	k, err := (&keyParser{}).ParseKey(h.KS)
	body := verifrt.And(verifrt.And(version == 0, n == 16 || n == 32), tag >= 10 && tag <= 16)
	valid := verifrt.And(h.EnvelopeValid(tinkpb.KeyData_SYMMETRIC, true), body)
	// stated separately so that a defect in one rule does not hide the others
	// NOT asserted: "accepted => key material type is SYMMETRIC". This parser deliberately does not
	// check the material type ("for compatibility with other Tink implementations", see the
	// comment in mac/hmac/protoserialization.go); recorded as an observation in DESIGN.md.
	verifrt.Observe("material-unchecked", err == nil && h.Material != tinkpb.KeyData_SYMMETRIC)
	verifrt.Assert(verifrt.Implies(err == nil, verifrt.And(h.EnvelopeValidKinds(h.Material, 0b1111), body)), "accepted => version 0, key 16/32 bytes, tag in [10, 16], own type URL, known prefix type, RAW => id 0")
	verifrt.Assert(verifrt.Implies(valid, err == nil), "every valid AES-CMAC key is accepted")
	if err != nil {
		verifrt.Reach("rejected")
		return
	}
	h.CheckParsedEnvelope(k)
	ak, ok := k.(*Key)
	verifrt.Assert(ok && ak != nil, "parsed key is *aescmac.Key")
	p := ak.Parameters().(*Parameters)
	verifrt.Assert(p.KeySizeInBytes() == n && p.CryptographicTagSizeInBytes() == int(tag), "parameters: key size = len(key_value), tag size = the message's")
	verifrt.Assert(p.Variant() == parseVariants[h.Kind()], "variant mirrors the prefix type")
	verifrt.AssertEq(ak.KeyBytes().Data(insecuresecretdataaccess.Token{}), kv, "key bytes are key_value")
	verifrt.AssertEq(ak.OutputPrefix(), h.WantPrefix(), "output prefix of (prefix type, id)")
	verifrt.Reach("accepted")
}

// VerifH_parse_aescmac_params: parametersParser.Parse on a hostile key template
// (AesCmacKeyFormat{key_size, params{tag_size}}; the format has no version field).
func VerifH_parse_aescmac_params() {
	tag, ks := verifrt.Uint32("tag"), verifrt.Uint32("keysize")
	msg := &pb.AesCmacKeyFormat{Params: &pb.AesCmacParams{TagSize: tag}, KeySize: ks}
	if verifrt.Choice("nilparams", 2) == 1 {
		msg.Params, tag = nil, 0
	}
	value, err := proto.Marshal(msg)
	verifrt.Assert(err == nil, "marshal")
	t, urlOK, prefix := verifh.HostileTemplate(typeURL, value)
	p, err := (&parametersParser{}).Parse(t)
	kind := verifh.KindOf(prefix)
	valid := verifrt.And(urlOK && kind >= 0, verifrt.And(ks == 16 || ks == 32, tag >= 10 && tag <= 16))
	verifrt.Assert((err == nil) == valid, "template accepted <=> own type URL, key size 16/32, tag in [10, 16], known prefix type")
	if err != nil {
		verifrt.Reach("rejected")
		return
	}
	ap := p.(*Parameters)
	verifrt.Assert(ap.KeySizeInBytes() == int(ks) && ap.CryptographicTagSizeInBytes() == int(tag), "parameters mirror the format")
	verifrt.Assert(ap.Variant() == parseVariants[kind], "variant mirrors the prefix type")
	verifrt.Assert(ap.HasIDRequirement() == (kind != 3), "id requirement iff not RAW")
	_, nerr := (&parametersParser{}).Parse(nil)
	verifrt.Assert(nerr != nil, "nil template rejected, no panic")
	verifrt.Reach("accepted")
}
