package mac

import (
	"github.com/tink-crypto/tink-go/v2/internal/verifrt"
	cmacpb "github.com/tink-crypto/tink-go/v2/proto/aes_cmac_go_proto"
	commonpb "github.com/tink-crypto/tink-go/v2/proto/common_go_proto"
	hmacpb "github.com/tink-crypto/tink-go/v2/proto/hmac_go_proto"
	tinkpb "github.com/tink-crypto/tink-go/v2/proto/tink_go_proto"
	"google.golang.org/protobuf/proto"
)

// C12, mac/mac_key_templates.go: what the name and doc comment of each MAC key template
// promise, written out by hand:
//   - HMACSHAxxxTagttt: hash SHAxxx, tag ttt/8 bytes, key size = hash output size (32 / 64,
//     as the doc comments state)
//   - AESCMACTag128: tag 16 bytes, key 32 bytes (the only AES-CMAC key size Tink accepts)
//   - no Raw/NoPrefix in any name => TINK
type ktRow struct {
	name    string
	fn      func() *tinkpb.KeyTemplate
	cmac    bool
	keySize uint32
	tagSize uint32
	hash    commonpb.HashType
}

var ktTable = [5]ktRow{
	{"HMACSHA256Tag128KeyTemplate", HMACSHA256Tag128KeyTemplate, false, 32, 16, commonpb.HashType_SHA256},
	{"HMACSHA256Tag256KeyTemplate", HMACSHA256Tag256KeyTemplate, false, 32, 32, commonpb.HashType_SHA256},
	{"HMACSHA512Tag256KeyTemplate", HMACSHA512Tag256KeyTemplate, false, 64, 32, commonpb.HashType_SHA512},
	{"HMACSHA512Tag512KeyTemplate", HMACSHA512Tag512KeyTemplate, false, 64, 64, commonpb.HashType_SHA512},
	{"AESCMACTag128KeyTemplate", AESCMACTag128KeyTemplate, true, 32, 16, commonpb.HashType_UNKNOWN_HASH},
}

func VerifH_templates_mac() {
	row := ktTable[verifrt.Choice("tmpl", 5)]
	t := row.fn()
	verifrt.Assert(t != nil, "template")
	verifrt.Assert(t.GetOutputPrefixType() == tinkpb.OutputPrefixType_TINK, "MAC templates are TINK")
	if row.cmac {
		verifrt.Assert(t.GetTypeUrl() == "type.googleapis.com/google.crypto.tink.AesCmacKey", "type URL AesCmacKey")
		f := &cmacpb.AesCmacKeyFormat{}
		verifrt.Assert(proto.Unmarshal(t.GetValue(), f) == nil, "key format parses")
		verifrt.Assert(f.GetParams() != nil, "params present")
		verifrt.Assert(f.GetKeySize() == row.keySize, "AES-CMAC key size 32")
		verifrt.Assert(f.GetParams().GetTagSize() == row.tagSize, "AESCMACTag128: tag size 16")
	} else {
		verifrt.Assert(t.GetTypeUrl() == "type.googleapis.com/google.crypto.tink.HmacKey", "type URL HmacKey")
		f := &hmacpb.HmacKeyFormat{}
		verifrt.Assert(proto.Unmarshal(t.GetValue(), f) == nil, "key format parses")
		verifrt.Assert(f.GetParams() != nil, "params present")
		verifrt.Assert(f.GetKeySize() == row.keySize, "HMACSHAxxx: key size = hash output size")
		verifrt.Assert(f.GetParams().GetTagSize() == row.tagSize, "Tagttt: tag size ttt/8")
		verifrt.Assert(f.GetParams().GetHash() == row.hash, "HMACSHAxxx: hash of the name")
		verifrt.Assert(f.GetVersion() == 0, "version 0")
	}
	verifrt.Reach("end")
}
