package mac

import (
	"errors"

	"github.com/tink-crypto/tink-go/v2/internal/verifh"
	"github.com/tink-crypto/tink-go/v2/internal/verifrt"
)

// idealMAC is a legacy (non-full) MAC primitive: tag = 0xA5 || len(data) || xor of data.
// It reads its input and allocates its output.
type idealMAC struct{}

func (idealMAC) ComputeMAC(data []byte) ([]byte, error) {
	x := byte(0)
	for _, b := range data {
		x ^= b
	}
	return []byte{0xA5, byte(len(data)), x, 1, 2, 3, 4, 5, 6, 7, 8}, nil
}

func (m idealMAC) VerifyMAC(mac, data []byte) error {
	want, _ := m.ComputeMAC(data)
	if len(mac) != len(want) {
		return errors.New("bad mac")
	}
	for i := range want {
		if mac[i] != want[i] {
			return errors.New("bad mac")
		}
	}
	return nil
}

// The legacy adapter (prefix + 0x00 suffix for LEGACY keys) must not write into the caller's
// data buffer, in particular not into its spare capacity.
func VerifH_c19_macadapter() {
	a := &fullMACAdapter{rawPrimitive: idealMAC{}, prefix: verifrt.Bytes("prefix", 5*verifrt.Choice("hasprefix", 2)), hasLegacyPrefix: verifrt.Choice("legacy", 2) == 1}
	verifh.CheckMACNoWrite(a)
}

// Semantics of the adapter (C04/C05): tag == prefix || raw(data [|| 0x00]).
func VerifH_macadapter_semantics() {
	legacy := verifrt.Choice("legacy", 2) == 1
	prefix := verifrt.Bytes("prefix", 5*verifrt.Choice("hasprefix", 2))
	a := &fullMACAdapter{rawPrimitive: idealMAC{}, prefix: prefix, hasLegacyPrefix: legacy}
	data := verifrt.Bytes("data", verifrt.Choice("n", 3))
	tag, err := a.ComputeMAC(data)
	verifrt.Assert(err == nil, "ComputeMAC succeeds")
	msg := append([]byte{}, data...)
	if legacy {
		msg = append(msg, 0)
	}
	raw, _ := idealMAC{}.ComputeMAC(msg)
	verifrt.AssertEq(tag, append(append([]byte{}, prefix...), raw...), "adapter tag == prefix || raw MAC(data [|| 0x00 for LEGACY])")
	verifrt.Assert(a.VerifyMAC(tag, data) == nil, "adapter verifies its own tag")
	verifrt.Reach("end")
}
