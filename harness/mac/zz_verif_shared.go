package mac

import (
	"github.com/tink-crypto/tink-go/v2/internal/verifh"
	"github.com/tink-crypto/tink-go/v2/internal/verifrt"
)

// C18 (sufficient condition) for the keyset-level MAC: the wrapped primitive built by the
// real factory from a symbolic keyset (1..2 keys, TINK/CRUNCHY/LEGACY/RAW, any status, full
// or legacy per-key primitives behind the real adapter, real prefix map, loggers from a
// stateless monitoring client) is frozen together with the handle; ComputeMAC / VerifyMAC
// only read it.
func VerifH_c18_macfactory() {
	verifrt.EngineOnly()
	ks := verifh.SymbolicKeyset(2, []int{0, 1, 2, 3}, true)
	verifh.InstallROMonitoring()
	m, err := NewWithConfig(ks.Handle, stubConfig{})
	verifrt.Assert(err == nil, "NewWithConfig succeeds")
	verifrt.Freeze(ks.Handle, "state shared between concurrent calls (keyset handle)")
	verifh.CheckMACShared(m)
}
