package subtle

// Harnesses for the public mac/subtle wrappers.
//   HMAC     thin wrapper around internal/mac/hmac (validation, ComputeMAC and VerifyMAC are the
//            internal ones; the key-level MAC of mac/hmac is verified on top of the same type by
//            VerifH_hmac_*): pinned here: argument hand-over (hash name -> hash, key, tag size),
//            the exported TagSize / HashFunc fields, and the whole behaviour seen through the
//            public type.
//   AESCMAC  own validation (key >= 16, tag 10..16) and truncation / comparison code over
//            internal/mac/aescmac.CMAC (core verified by VerifH_cmac_*).

import (
	stdhmac "crypto/hmac"
	"crypto/sha1"
	"crypto/sha256"
	"crypto/sha512"
	"hash"

	"github.com/tink-crypto/tink-go/v2/internal/verifh"
	"github.com/tink-crypto/tink-go/v2/internal/verifmodels"
	"github.com/tink-crypto/tink-go/v2/internal/verifrt"
	"github.com/tink-crypto/tink-go/v2/internal/verifspec"
)

// The five hash names of the documented table: name -> (hash, digest size in bytes).
func hashByName(i int) (string, func() hash.Hash, int) {
	switch i {
	case 0:
		return "SHA1", sha1.New, 20
	case 1:
		return "SHA224", sha256.New224, 28
	case 2:
		return "SHA256", sha256.New, 32
	case 3:
		return "SHA384", sha512.New384, 48
	}
	return "SHA512", sha512.New, 64
}

// names that must not be understood (dashed forms, lower case, other algorithms, nothing)
var badHashNames = [...]string{"", "SHA-256", "sha256", "SHA2", "SHA3-256", "MD5", "SHA512/256", "SHA1 ", "SHA256\x00"}

// ---------------------------------------------------------------------------------------
// HMAC

// Constructor: every hash name of the table and a set of names outside it x key lengths
// around the minimum x every uint32 tag size.
func VerifH_subtle_hmac_ctor() {
	hs := verifrt.Choice("hash", 5+len(badHashNames))
	kl := [...]int{0, 1, 15, 16, 17, 32, 64, 65}[verifrt.Choice("kl", 8)]
	key := verifrt.Bytes("key", kl)
	ts := verifrt.Uint32("ts")
	if hs >= 5 {
		m, err := NewHMAC(badHashNames[hs-5], key, ts)
		verifrt.Assert(err != nil && m == nil, "unknown hash names are refused")
		verifrt.Assert(ValidateHMACParams(badHashNames[hs-5], uint32(kl), ts) != nil, "ValidateHMACParams refuses unknown hash names")
		verifrt.Reach("badname")
		return
	}
	name, hf, digest := hashByName(hs)
	m, err := NewHMAC(name, key, ts)
	want := kl >= 16 && ts >= 10 && ts <= uint32(digest)
	verifrt.Assert((err == nil) == want, "NewHMAC accepts exactly key >= 16 bytes, 10 <= tag <= digest size")
	verifrt.Assert((m == nil) == (err != nil), "no primitive together with an error")
	verifrt.Assert((ValidateHMACParams(name, uint32(kl), ts) == nil) == want, "ValidateHMACParams agrees with the constructor")
	if err == nil {
		verifrt.Assert(m.TagSize == ts, "TagSize field reports the requested size")
		verifrt.Assert(m.HashFunc != nil, "HashFunc field set")
		// the exported hash constructor is the named hash
		x := verifrt.Bytes("x", 2)
		h1, h2 := m.HashFunc(), hf()
		h1.Write(x)
		h2.Write(x)
		verifrt.AssertEq(h1.Sum(nil), h2.Sum(nil), "HashFunc is the hash named by hashAlg")
	}
	verifrt.Observe("ok", err == nil)
	verifrt.Reach("end")
}

// ValidateHMACParams for all uint32 key and tag sizes.
func VerifH_subtle_hmac_validate() {
	name, _, digest := hashByName(verifrt.Choice("hash", 5))
	ks := verifrt.Uint32("ks")
	ts := verifrt.Uint32("ts")
	err := ValidateHMACParams(name, ks, ts)
	verifrt.Assert((err == nil) == (ks >= 16 && ts >= 10 && ts <= uint32(digest)), "ValidateHMACParams accepts exactly key >= 16, 10 <= tag <= digest")
	verifrt.Observe("ok", err == nil)
	verifrt.Reach("end")
}

func buildHMAC(full bool) (m *HMAC, key []byte, hf func() hash.Hash, tag int) {
	nh := 5
	if !full {
		nh = 3
	}
	name, hf, digest := hashByName(verifrt.Choice("hash", nh))
	switch verifrt.Choice("tsz", 3) {
	case 0:
		tag = 10
	case 1:
		tag = digest
	default:
		tag = 16
	}
	kls := []int{16, 32}
	if full {
		// around the hash block sizes too (RFC 2104 pads keys up to the block size and hashes longer ones)
		kls = []int{16, 17, 32, 63, 64, 65, 127, 128, 129}
	}
	key = verifrt.Bytes("key", kls[verifrt.Choice("klen", len(kls))])
	m, err := NewHMAC(name, key, uint32(tag))
	verifrt.Assert(err == nil && m != nil, "NewHMAC")
	return m, key, hf, tag
}

func hmacRef(hf func() hash.Hash, key, msg []byte, tag int) []byte {
	h := stdhmac.New(hf, key)
	h.Write(msg)
	return h.Sum(nil)[:tag]
}

func VerifH_subtle_hmac_compute() {
	m, key, hf, t := buildHMAC(true)
	msg := verifrt.Bytes("msg", verifrt.Choice("n", 3))
	tag, err := m.ComputeMAC(msg)
	verifrt.Assert(err == nil, "ComputeMAC succeeds")
	verifrt.AssertEq(tag, hmacRef(hf, key, msg, t), "ComputeMAC == HMAC-<hashAlg>(key, msg)[:tagSize]")
	tag2, _ := m.ComputeMAC(msg)
	verifrt.AssertEq(tag2, tag, "deterministic")
	verifrt.Assert(m.VerifyMAC(tag, msg) == nil, "VerifyMAC accepts ComputeMAC output")
	verifrt.Observe("tag", tag)
	verifrt.Reach("end")
}

// VerifyMAC(tag', msg) accepts iff tag' == ComputeMAC(msg): same-length candidates are the
// genuine tag xor delta (all strings of that length), other lengths agree with the genuine
// tag on the common prefix (worst case).
func checkVerify(m verifh.MAC, want, msg []byte) {
	verifmodels.AdversaryPhase()
	if verifrt.Choice("samelen", 2) == 0 {
		delta := verifrt.Bytes("delta", len(want))
		err := m.VerifyMAC(verifspec.XorDelta(want, delta), msg)
		verifrt.Assert((err == nil) == verifrt.EqBytes(delta, make([]byte, len(want))), "VerifyMAC accepts exactly the genuine tag")
	} else {
		l := [...]int{0, 1, 9, len(want) - 1, len(want) + 1, len(want) + 2, 64, 65}[verifrt.Choice("len", 8)]
		verifrt.Assume(l != len(want) && l >= 0)
		cand := verifrt.Bytes("cand", l)
		for i := 0; i < l && i < len(want); i++ {
			cand[i] = want[i]
		}
		verifrt.Assert(m.VerifyMAC(cand, msg) != nil, "truncated or extended tag rejected")
	}
	verifrt.Reach("end")
}

func VerifH_subtle_hmac_verify() {
	m, key, hf, t := buildHMAC(false)
	msg := verifrt.Bytes("msg", verifrt.Choice("n", 2))
	checkVerify(m, hmacRef(hf, key, msg, t), msg)
}

func VerifH_c19_subtle_hmac() {
	m, _, _, _ := buildHMAC(false)
	verifh.CheckMACNoWrite(m)
}

// The constructor and the calls do not write into the caller's key slice (nor its spare capacity).
// (NewHMAC keeps the caller's slice - documented observation, not asserted here.)
func VerifH_c19_subtle_hmac_key() {
	key := verifh.Buf("key", 16+16*verifrt.Choice("klen", 2), "caller key buffer")
	m, err := NewHMAC("SHA256", key, 16)
	verifrt.Assert(err == nil, "NewHMAC")
	verifrt.CheckProtected()
	msg := verifrt.Bytes("msg", 1)
	tag, err := m.ComputeMAC(msg)
	verifrt.Assert(err == nil && m.VerifyMAC(tag, msg) == nil, "ComputeMAC / VerifyMAC")
	verifrt.CheckProtected()
	verifrt.Assert(!verifrt.SameArray(tag, key), "the tag shares no memory with the key")
	verifrt.Reach("end")
}

func VerifH_c18_subtle_hmac() {
	verifrt.EngineOnly()
	m, _, _, _ := buildHMAC(false)
	verifh.CheckMACShared(m)
}

// ---------------------------------------------------------------------------------------
// AES-CMAC

// Constructor: every key length 0..40 x every uint32 tag length.
func VerifH_subtle_cmac_ctor() {
	kl := verifrt.Choice("kl", 41)
	ts := verifrt.Uint32("ts")
	m, err := NewAESCMAC(verifrt.Bytes("key", kl), ts)
	verifrt.Assert((err == nil) == ((kl == 16 || kl == 24 || kl == 32) && ts >= 10 && ts <= 16), "NewAESCMAC accepts exactly AES key sizes and tag lengths 10..16")
	verifrt.Assert((m == nil) == (err != nil), "no primitive together with an error")
	verifrt.Observe("ok", err == nil)
	verifrt.Reach("end")
}

// ValidateCMACParams for all uint32.
func VerifH_subtle_cmac_validate() {
	ks := verifrt.Uint32("ks")
	ts := verifrt.Uint32("ts")
	err := ValidateCMACParams(ks, ts)
	verifrt.Assert((err == nil) == (ks == 32 && ts >= 10 && ts <= 16), "ValidateCMACParams accepts exactly 32-byte keys and tags 10..16")
	verifrt.Observe("ok", err == nil)
	verifrt.Reach("end")
}

func buildCMAC(full bool) (*AESCMAC, []byte, int) {
	kl := 32
	if full {
		kl = [...]int{16, 24, 32}[verifrt.Choice("klen", 3)]
	}
	key := verifrt.Bytes("key", kl)
	tag := 10 + verifrt.Choice("tsz", 7)
	m, err := NewAESCMAC(key, uint32(tag))
	verifrt.Assert(err == nil && m != nil, "NewAESCMAC")
	return m, key, tag
}

func VerifH_subtle_cmac_compute() {
	m, key, t := buildCMAC(true)
	max := 19
	if verifrt.Thorough() {
		max = 50
	}
	msg := verifrt.Bytes("msg", verifrt.Choice("n", max))
	tag, err := m.ComputeMAC(msg)
	verifrt.Assert(err == nil, "ComputeMAC succeeds")
	verifrt.AssertEq(tag, verifspec.CMAC(key, msg)[:t], "ComputeMAC == AES-CMAC(key, msg)[:tagLength] (RFC 4493)")
	tag2, _ := m.ComputeMAC(msg)
	verifrt.AssertEq(tag2, tag, "deterministic")
	verifrt.Assert(m.VerifyMAC(tag, msg) == nil, "VerifyMAC accepts ComputeMAC output")
	verifrt.Observe("tag", tag)
	verifrt.Reach("end")
}

func VerifH_subtle_cmac_verify() {
	m, key, t := buildCMAC(false)
	msg := verifrt.Bytes("msg", verifrt.Choice("n", 2))
	checkVerify(m, verifspec.CMAC(key, msg)[:t], msg)
}

func VerifH_c19_subtle_cmac() {
	m, _, _ := buildCMAC(false)
	verifh.CheckMACNoWrite(m)
}

// The constructor does not write into the caller's key slice and does not keep it: a caller
// that overwrites its key afterwards does not change later tags.
func VerifH_c19_subtle_cmac_key() {
	key := verifh.Buf("key", 32, "caller key buffer")
	key0 := append([]byte{}, key...)
	m, err := NewAESCMAC(key, 16)
	verifrt.Assert(err == nil, "NewAESCMAC")
	verifrt.CheckProtected()
	msg := verifrt.Bytes("msg", verifrt.Choice("n", 18))
	verifh.Unprotect(key)
	verifh.Scribble(key)
	tag, err := m.ComputeMAC(msg)
	verifrt.Assert(err == nil, "ComputeMAC")
	verifrt.AssertEq(tag, verifspec.CMAC(key0, msg), "overwriting the caller's key slice after construction does not change the MAC")
	verifrt.Reach("end")
}

func VerifH_c18_subtle_cmac() {
	verifrt.EngineOnly()
	m, _, _ := buildCMAC(false)
	verifh.CheckMACShared(m)
}
