package mac

import (
	"errors"

	"github.com/tink-crypto/tink-go/v2/internal/internalapi"
	"github.com/tink-crypto/tink-go/v2/internal/registryconfig/legacyprimitive"
	"github.com/tink-crypto/tink-go/v2/internal/verifh"
	"github.com/tink-crypto/tink-go/v2/internal/verifrt"
	"github.com/tink-crypto/tink-go/v2/key"
)

// idealKeyMAC: tag = [prefix] || 0xA0+idx || len(msg') || xor(msg') || 7 filler bytes, where
// msg' = msg || 0x00 for LEGACY keys when the primitive is a full one (raw legacy primitives
// get the suffix from the factory's adapter). 10 bytes without prefix: the documented minimum.
type idealKeyMAC struct {
	k    *verifh.FKey
	full bool
}

func (m *idealKeyMAC) tag(data []byte) []byte {
	msg := data
	var p []byte
	if m.full {
		p = m.k.OutputPrefix()
		if m.k.Kind == 2 {
			msg = append(append([]byte{}, data...), 0)
		}
	}
	p = m.k.WithHead(p)
	x := byte(0)
	for _, b := range msg {
		x ^= b
	}
	return append(p, 0xA0+byte(m.k.Idx), byte(len(msg)), x, 1, 2, 3, 4, 5, 6, 7)
}

func (m *idealKeyMAC) ComputeMAC(data []byte) ([]byte, error) { return m.tag(data), nil }
func (m *idealKeyMAC) VerifyMAC(mac, data []byte) error {
	want := m.tag(data)
	if len(mac) != len(want) {
		return errors.New("ideal: bad mac")
	}
	for i := range want {
		if mac[i] != want[i] {
			return errors.New("ideal: bad mac")
		}
	}
	return nil
}

type stubConfig struct{}

func (stubConfig) PrimitiveFromKey(k key.Key, _ internalapi.Token) (any, error) {
	fk := k.(*verifh.FKey)
	if fk.Legacy {
		return legacyprimitive.New(&idealKeyMAC{k: fk, full: false}), nil
	}
	return &idealKeyMAC{k: fk, full: true}, nil
}

func factoryMax() int {
	if verifrt.Thorough() {
		return 3
	}
	return 2
}

func VerifH_factory_mac() {
	rec := verifh.InstallMonitoring()
	ks := verifh.SymbolicKeyset(factoryMax(), []int{0, 1, 2, 3}, true)
	m, err := NewWithConfig(ks.Handle, stubConfig{})
	verifrt.Assert(err == nil, "NewWithConfig succeeds")
	data := verifrt.Bytes("data", verifrt.Choice("dn", 2))
	mark := len(rec.Events)
	tag, err := m.ComputeMAC(data)
	verifrt.Assert(err == nil, "ComputeMAC succeeds")
	prim := ks.Keys[ks.Primary]
	verifrt.AssertEq(tag, (&idealKeyMAC{k: prim, full: true}).tag(data), "ComputeMAC == primary key's tag (prefix, LEGACY suffix) whether or not its primitive is a legacy one")
	ev := rec.Since(mark, "compute")
	verifrt.Assert(len(ev) == 1 && !ev[0].Failure && ev[0].KeyID == prim.ID && ev[0].N == len(data), "compute logged once, naming the primary key")

	x := verifrt.Bytes("x", [...]int{0, 4, 5, 6, 10, 11, 14, 15, 16}[verifrt.Choice("xn", 9)])
	mark = len(rec.Events)
	err = m.VerifyMAC(x, data)
	accepted := -1
	for pass := 0; pass < 2 && accepted < 0; pass++ {
		for i, k := range ks.Keys {
			if !ks.Enabled(i) || (k.Kind == 3) != (pass == 1) {
				continue
			}
			if (&idealKeyMAC{k: k, full: true}).VerifyMAC(x, data) == nil && accepted < 0 {
				accepted = i
			}
		}
	}
	verifrt.Assert((err == nil) == (accepted >= 0), "VerifyMAC accepts iff the tag is valid under some ENABLED key")
	ev = rec.Since(mark, "verify")
	if err == nil && accepted >= 0 {
		verifrt.Assert(len(ev) == 1 && !ev[0].Failure && ev[0].KeyID == ks.Keys[accepted].ID && ev[0].N == len(data), "verify success logged once, naming the key that verified")
		verifrt.Reach("accepted")
	} else {
		verifrt.Assert(len(ev) == 1 && ev[0].Failure, "verify failure logged")
		verifrt.Reach("rejected")
	}
}

// A RAW key's genuine tag verifies even when its first five bytes happen to equal the output
// prefix of another ENABLED key of the keyset (the tag bytes of a RAW key are arbitrary).
func VerifH_factory_mac_rawcollision() {
	rec := verifh.InstallMonitoring()
	ks := verifh.SymbolicKeyset(factoryMax(), []int{0, 1, 2, 3}, true)
	raw, collides := verifh.RawCollisionSetup(ks)
	verifrt.Assume(raw >= 0)
	m, err := NewWithConfig(ks.Handle, stubConfig{})
	verifrt.Assert(err == nil, "NewWithConfig succeeds")
	data := verifrt.Bytes("data", verifrt.Choice("dn", 2))
	x := (&idealKeyMAC{k: ks.Keys[raw], full: true}).tag(data)
	mark := len(rec.Events)
	err = m.VerifyMAC(x, data)
	verifrt.Assert(err == nil, "a RAW key's genuine tag verifies whatever its leading bytes are")
	ev := rec.Since(mark, "verify")
	verifrt.Assert(len(ev) == 1 && !ev[0].Failure && ev[0].KeyID == ks.Keys[raw].ID, "verify success logged once, naming the RAW key")
	if collides {
		verifrt.Reach("collision")
	}
	verifrt.Reach("end")
}
