package insecurecleartextkeyset

import (
	"errors"

	"github.com/tink-crypto/tink-go/v2/internal/verifrt"
	"github.com/tink-crypto/tink-go/v2/keyset"
	tinkpb "github.com/tink-crypto/tink-go/v2/proto/tink_go_proto"
)

// The thin wrappers of this package around keyset's internal constructor / exporter (reached
// through the package variables keysetHandle / keysetMaterial, which the harness replaces by
// recording functions; the real ones are covered by the keyset harnesses):
//   Read:  nil reader, reader error, nil keyset, keyset without keys -> error, no handle, and the
//          constructor is not even called; otherwise the reader's keyset and the caller's
//          options go to the constructor unchanged and its result is returned.
//   Write: nil handle / nil writer -> error, nothing written; otherwise the writer receives
//          exactly the handle's key material, once, and its error is returned.
//   KeysetHandle (deprecated): the constructor's handle, nil on error.

type vReader struct {
	ks    *tinkpb.Keyset
	err   error
	calls int
}

func (r *vReader) Read() (*tinkpb.Keyset, error) { r.calls++; return r.ks, r.err }
func (r *vReader) ReadEncrypted() (*tinkpb.EncryptedKeyset, error) {
	panic("cleartext Read must not read an encrypted keyset")
}

type vWriter struct {
	got   []*tinkpb.Keyset
	err   error
	calls int
}

func (w *vWriter) Write(ks *tinkpb.Keyset) error { w.calls++; w.got = append(w.got, ks); return w.err }
func (w *vWriter) WriteEncrypted(*tinkpb.EncryptedKeyset) error {
	panic("cleartext Write must not write an encrypted keyset")
}

var errV = errors.New("stub failure")

type vCalls struct {
	handleKS   []*tinkpb.Keyset
	handleOpts []int
	handleRet  *keyset.Handle
	handleErr  error
	matArg     []*keyset.Handle
	matRet     *tinkpb.Keyset
}

func vInstall() *vCalls {
	c := &vCalls{handleRet: &keyset.Handle{}, matRet: &tinkpb.Keyset{PrimaryKeyId: 7}}
	keysetHandle = func(ks *tinkpb.Keyset, opts ...keyset.Option) (*keyset.Handle, error) {
		c.handleKS = append(c.handleKS, ks)
		c.handleOpts = append(c.handleOpts, len(opts))
		if c.handleErr != nil {
			return nil, c.handleErr
		}
		return c.handleRet, nil
	}
	keysetMaterial = func(h *keyset.Handle) *tinkpb.Keyset {
		c.matArg = append(c.matArg, h)
		return c.matRet
	}
	return c
}

func vKeyset(n int) *tinkpb.Keyset {
	ks := &tinkpb.Keyset{PrimaryKeyId: verifrt.Uint32("primary")}
	for i := 0; i < n; i++ {
		ks.Key = append(ks.Key, &tinkpb.Keyset_Key{KeyId: uint32(i)})
	}
	return ks
}

func VerifH_cleartext_read() {
	c := vInstall()
	c.handleErr = [...]error{nil, errV}[verifrt.Choice("ctorfails", 2)]
	nopts := verifrt.Choice("nopts", 3)
	opts := make([]keyset.Option, nopts)
	for i := range opts {
		opts[i] = keyset.WithAnnotations(nil)
	}
	switch verifrt.Choice("case", 5) {
	case 0:
		h, err := Read(nil, opts...)
		verifrt.Assert(h == nil && err != nil, "nil reader refused")
		verifrt.Assert(len(c.handleKS) == 0, "constructor not called")
	case 1:
		r := &vReader{ks: vKeyset(1), err: errV}
		h, err := Read(r, opts...)
		verifrt.Assert(h == nil && err != nil && r.calls == 1, "a failing reader gives an error and no handle")
		verifrt.Assert(len(c.handleKS) == 0, "constructor not called")
	case 2:
		r := &vReader{}
		h, err := Read(r, opts...)
		verifrt.Assert(h == nil && err != nil, "a nil keyset is refused")
		verifrt.Assert(len(c.handleKS) == 0, "constructor not called")
	case 3:
		r := &vReader{ks: vKeyset(0)}
		h, err := Read(r, opts...)
		verifrt.Assert(h == nil && err != nil, "a keyset without keys is refused")
		verifrt.Assert(len(c.handleKS) == 0, "constructor not called")
	default:
		ks := vKeyset(1 + verifrt.Choice("n", 2))
		r := &vReader{ks: ks}
		h, err := Read(r, opts...)
		verifrt.Assert(r.calls == 1, "the reader is read once")
		verifrt.Assert(len(c.handleKS) == 1 && c.handleKS[0] == ks && c.handleOpts[0] == nopts, "the reader's keyset and all options go to the constructor")
		verifrt.Assert((err != nil) == (c.handleErr != nil), "the constructor's verdict is returned")
		if err == nil {
			verifrt.Assert(h == c.handleRet, "the constructor's handle is returned")
		} else {
			verifrt.Assert(h == nil, "no handle together with an error")
		}
	}
	verifrt.Reach("end")
}

func VerifH_cleartext_write() {
	c := vInstall()
	w := &vWriter{err: [...]error{nil, errV}[verifrt.Choice("writerfails", 2)]}
	h := &keyset.Handle{}
	switch verifrt.Choice("case", 3) {
	case 0:
		verifrt.Assert(Write(nil, w) != nil, "nil handle refused")
		verifrt.Assert(w.calls == 0 && len(c.matArg) == 0, "nothing exported, nothing written")
	case 1:
		verifrt.Assert(Write(h, nil) != nil, "nil writer refused")
		verifrt.Assert(len(c.matArg) == 0, "nothing exported")
	default:
		err := Write(h, w)
		verifrt.Assert(len(c.matArg) == 1 && c.matArg[0] == h, "the handle's material is exported once")
		verifrt.Assert(w.calls == 1 && w.got[0] == c.matRet, "the writer receives exactly that material, once")
		verifrt.Assert((err != nil) == (w.err != nil), "the writer's verdict is returned")
		verifrt.Assert(KeysetMaterial(h) == c.matRet, "KeysetMaterial returns the exporter's result")
	}
	verifrt.Reach("end")
}

func VerifH_cleartext_keysethandle() {
	c := vInstall()
	c.handleErr = [...]error{nil, errV}[verifrt.Choice("ctorfails", 2)]
	ks := vKeyset(1)
	h := KeysetHandle(ks)
	verifrt.Assert(len(c.handleKS) == 1 && c.handleKS[0] == ks && c.handleOpts[0] == 0, "the keyset goes to the constructor, without options")
	if c.handleErr != nil {
		verifrt.Assert(h == nil, "nil on error")
	} else {
		verifrt.Assert(h == c.handleRet, "the constructor's handle")
	}
	verifrt.Reach("end")
}
