package secretdata

import (
	"github.com/tink-crypto/tink-go/v2/insecuresecretdataaccess"
	"github.com/tink-crypto/tink-go/v2/internal/verifrt"
)

// NewBytesFromRand(n) is exactly one draw of n bytes and holds exactly those bytes.
func VerifH_c20_secretdata_rand() {
	n := 1 + verifrt.Choice("n", 65)
	d0 := verifrt.Draws()
	b, err := NewBytesFromRand(uint32(n))
	verifrt.Assert(err == nil, "NewBytesFromRand succeeds")
	verifrt.Assert(verifrt.Draws() == d0+1, "exactly one draw")
	draw := verifrt.DrawBytes(d0)
	verifrt.Assert(len(draw) == n && b.Len() == n, "the draw covers the whole key")
	verifrt.AssertEq(b.Data(insecuresecretdataaccess.Token{}), draw, "key bytes are the drawn bytes, position by position")
	verifrt.Reach("end")
}

// NewBytesFromData clones; Data returns clones; Equal is byte equality.
func VerifH_c19_secretdata() {
	n := verifrt.Choice("n", 4)
	src := verifrt.BytesCap("src", n, n+verifrt.Choice("spare", 2))
	verifrt.Protect(src, "caller key buffer")
	b := NewBytesFromData(src, insecuresecretdataaccess.Token{})
	verifrt.CheckProtected()
	d1 := b.Data(insecuresecretdataaccess.Token{})
	d2 := b.Data(insecuresecretdataaccess.Token{})
	verifrt.AssertEq(d1, src, "content preserved")
	verifrt.Assert(!verifrt.SameArray(d1, src) && (n == 0 || !verifrt.SameArray(d1, d2)), "no memory shared with the caller or between accessor results")
	other := NewBytesFromData(verifrt.Bytes("other", n), insecuresecretdataaccess.Token{})
	verifrt.Assert(b.Equal(other) == verifrt.EqBytes(src, other.Data(insecuresecretdataaccess.Token{})), "Equal <=> same bytes")
	verifrt.Reach("end")
}
