package signature

import (
	"github.com/tink-crypto/tink-go/v2/internal/verifrt"
)

// Pad left-pads with zeros to the given length and refuses longer inputs; AdjustEncodingLengths
// pads d to len(n), dp to len(p), dq to len(q) and the CRT coefficient q^-1 mod p to len(p)
// (RFC 8017 A.1.2: qInv < p) - for primes of DIFFERENT byte lengths too - and fails exactly when
// a value is longer than its target.
func VerifH_rsa_adjust_lengths() {
	ln := 8
	lp := 3 + verifrt.Choice("lp", 3) // 3..5
	lq := 3 + verifrt.Choice("lq", 3)
	ld := verifrt.Choice("ld", ln+2)    // 0..9
	ldp := verifrt.Choice("ldp", lp+2)  // 0..lp+1
	ldq := verifrt.Choice("ldq", lq+2)  // 0..lq+1
	lc := verifrt.Choice("lcrt", lp+2)  // 0..lp+1
	n, p, q := verifrt.Bytes("n", ln), verifrt.Bytes("p", lp), verifrt.Bytes("q", lq)
	d, dp, dq, crt := verifrt.Bytes("d", ld), verifrt.Bytes("dp", ldp), verifrt.Bytes("dq", ldq), verifrt.Bytes("crt", lc)
	od, odp, odq, ocrt, err := AdjustEncodingLengths(n, p, q, d, dp, dq, crt)
	ok := ld <= ln && ldp <= lp && ldq <= lq && lc <= lp
	verifrt.Assert((err == nil) == ok, "fails exactly when some value is longer than its target length")
	if err != nil {
		verifrt.Reach("rejected")
		return
	}
	pad := func(b []byte, l int) []byte {
		out := make([]byte, l)
		copy(out[l-len(b):], b)
		return out
	}
	verifrt.AssertEq(od, pad(d, ln), "d left-padded to len(n)")
	verifrt.AssertEq(odp, pad(dp, lp), "dp left-padded to len(p)")
	verifrt.AssertEq(odq, pad(dq, lq), "dq left-padded to len(q)")
	verifrt.AssertEq(ocrt, pad(crt, lp), "crt (q^-1 mod p) left-padded to len(p)")
	verifrt.Reach("end")
}
