package ecdsa

import (
	"math/big"

	"github.com/tink-crypto/tink-go/v2/internal/verifrt"
)

var p1363Curves = [...]struct {
	name string
	size int
}{{"P-256", 64}, {"P-384", 96}, {"P-521", 132}}

// IEEEP1363DecodeWithCurve accepts exactly the byte strings of the curve's fixed signature
// size (every other length 0..140 is rejected, whatever the contents), returns
// (r, s) = the two big-endian halves, and IEEEP1363Encode is its inverse.
func VerifH_p1363_decode_p256() { p1363Decode(0) }
func VerifH_p1363_decode_p384() { p1363Decode(1) }
func VerifH_p1363_decode_p521() { p1363Decode(2) }

func p1363Decode(ci int) {
	c := p1363Curves[ci]
	l := verifrt.Choice("len", 141)
	b := verifrt.Bytes("sig", l)
	if l == 64 || l == 96 || l == 132 {
		// leading zero bytes of r and s: a stated case split (keeps big.Int normalisation
		// from forking once per word); the remaining bytes are arbitrary
		zeros := []int{0, 1, 8, l / 2}
		if verifrt.Thorough() {
			zeros = []int{0, 1, 7, 8, 9, 16, l/2 - 1, l / 2}
		}
		zr, zs := zeros[verifrt.Choice("zr", len(zeros))], zeros[verifrt.Choice("zs", len(zeros))]
		for i := 0; i < zr; i++ {
			b[i] = 0
		}
		for i := 0; i < zs; i++ {
			b[l/2+i] = 0
		}
		if zr < l/2 {
			verifrt.Assume(b[zr] != 0)
		}
		if zs < l/2 {
			verifrt.Assume(b[l/2+zs] != 0)
		}
	}
	sig, err := IEEEP1363DecodeWithCurve(b, c.name)
	verifrt.Assert((err == nil) == (l == c.size), "accepted iff the length is the curve's fixed signature size")
	if err != nil {
		verifrt.Assert(sig == nil, "no signature on error")
		verifrt.Reach("rejected")
		return
	}
	half := c.size / 2
	verifrt.Assert(sig.R.BitLen() <= 8*half && sig.S.BitLen() <= 8*half, "r, s fit the scalar size")
	rb, sb := make([]byte, half), make([]byte, half)
	sig.R.FillBytes(rb)
	sig.S.FillBytes(sb)
	verifrt.AssertEq(rb, b[:half], "r == first half, big endian")
	verifrt.AssertEq(sb, b[half:], "s == second half, big endian")
	enc, err := IEEEP1363Encode(sig, c.name)
	verifrt.Assert(err == nil, "re-encoding succeeds")
	verifrt.AssertEq(enc, b, "Encode(Decode(b)) == b")
	verifrt.Reach("accepted")
}

// IEEEP1363Encode: fixed size, each scalar left-padded; scalars that do not fit are rejected.
func VerifH_p1363_encode() {
	c := p1363Curves[verifrt.Choice("curve", 3)]
	half := c.size / 2
	rl := [...]int{0, 1, half - 1, half, half + 1}[verifrt.Choice("rl", 5)]
	sl := [...]int{0, 1, half - 1, half, half + 1}[verifrt.Choice("sl", 5)]
	rb, sb := verifrt.Bytes("r", rl), verifrt.Bytes("s", sl)
	if rl > 0 {
		verifrt.Assume(rb[0] != 0)
	}
	if sl > 0 {
		verifrt.Assume(sb[0] != 0)
	}
	sig := &Signature{R: new(big.Int).SetBytes(rb), S: new(big.Int).SetBytes(sb)}
	enc, err := IEEEP1363Encode(sig, c.name)
	verifrt.Assert((err == nil) == (rl <= half && sl <= half), "encodable iff both scalars fit")
	if err != nil {
		verifrt.Reach("rejected")
		return
	}
	verifrt.Assert(len(enc) == c.size, "fixed size")
	want := make([]byte, c.size)
	copy(want[half-rl:half], rb)
	copy(want[c.size-sl:], sb)
	verifrt.AssertEq(enc, want, "r || s, each left-padded with zeros")
	verifrt.Reach("end")
}
