package signature

import (
	"crypto"
	"crypto/rand"
	"crypto/rsa"
	"crypto/sha256"
	"crypto/sha512"
	"encoding/binary"
	"hash"
	"io"

	"github.com/tink-crypto/tink-go/v2/internal/verifrt"
)

func pickRSAHash() (name string, id crypto.Hash, hf func() hash.Hash) {
	switch verifrt.Choice("hash", 3) {
	case 0:
		return "SHA256", crypto.SHA256, sha256.New
	case 1:
		return "SHA384", crypto.SHA384, sha512.New384
	}
	return "SHA512", crypto.SHA512, sha512.New
}

func idealRSASig(scheme string, h crypto.Hash, digest []byte) []byte {
	var hb [4]byte
	binary.BigEndian.PutUint32(hb[:], uint32(h))
	return verifrt.UF(scheme, 8, hb[:], digest)
}

// RSA-SSA-PKCS1: the signer and the verifier hash the message with the key's hash function
// and name that same hash to crypto/rsa (the DigestInfo prefix depends on it): Sign == ideal
// PKCS#1 v1.5 signature over (hash id, Hash(msg)), and Verify accepts exactly that, for SHA-256,
// SHA-384 and SHA-512; other hash names are refused. crypto/rsa is an ideal scheme under
// the engine; natively the real one runs on a fixed 2048-bit key against the standard
// library used directly as the independent implementation.
func VerifH_sig_rsapkcs1() {
	name, id, hf := pickRSAHash()
	key := verifRSAKey()
	verifrt.Summarize("crypto/rsa.SignPKCS1v15", func(_ io.Reader, _ *rsa.PrivateKey, h crypto.Hash, digest []byte) ([]byte, error) {
		return idealRSASig("PKCS1SIG", h, digest), nil
	})
	verifrt.Summarize("crypto/rsa.VerifyPKCS1v15", func(_ *rsa.PublicKey, h crypto.Hash, digest, sig []byte) error {
		if !verifrt.EqBytes(sig, idealRSASig("PKCS1SIG", h, digest)) {
			return errPSS
		}
		return nil
	})
	s, err := New_RSA_SSA_PKCS1_Signer(name, key)
	verifrt.Assert(err == nil, "New_RSA_SSA_PKCS1_Signer")
	v, err := New_RSA_SSA_PKCS1_Verifier(name, &key.PublicKey)
	verifrt.Assert(err == nil, "New_RSA_SSA_PKCS1_Verifier")
	msg := verifrt.Bytes("msg", verifrt.Choice("n", 3))
	h := hf()
	h.Write(msg)
	digest := h.Sum(nil)
	sig, err := s.Sign(msg)
	verifrt.Assert(err == nil, "Sign succeeds")
	// independent verification with the standard library used directly
	verifrt.Assert(rsa.VerifyPKCS1v15(&key.PublicKey, id, digest, sig) == nil, "Sign's output is a PKCS#1 v1.5 signature over Hash(msg) with the key's hash")
	verifrt.Assert(v.Verify(sig, msg) == nil, "the matching verifier accepts")
	// a signature made with the standard library directly is accepted; one under another hash is not
	ref, err := rsa.SignPKCS1v15(rand.Reader, key, id, digest)
	verifrt.Assert(err == nil && v.Verify(ref, msg) == nil, "Verify accepts an independently made signature")
	other := [...]crypto.Hash{crypto.SHA256, crypto.SHA384, crypto.SHA512}[verifrt.Choice("other", 3)]
	if other != id {
		oh := other.New()
		oh.Write(msg)
		bad, err := rsa.SignPKCS1v15(rand.Reader, key, other, oh.Sum(nil))
		verifrt.Assert(err == nil, "reference signature under another hash")
		// idealisation: signatures under different hash functions differ
		verifrt.Assume(!verifrt.EqBytes(bad, sig))
		verifrt.Assert(v.Verify(bad, msg) != nil, "a signature under another hash function is rejected")
	}
	verifrt.Reach("end")
}

func VerifH_sig_rsa_hashnames() {
	key := verifRSAKey()
	name := [...]string{"SHA1", "SHA224", "MD5", "", "sha256", "SHA-256"}[verifrt.Choice("name", 6)]
	_, e1 := New_RSA_SSA_PKCS1_Signer(name, key)
	_, e2 := New_RSA_SSA_PKCS1_Verifier(name, &key.PublicKey)
	_, e3 := New_RSA_SSA_PSS_Signer(name, 32, key)
	_, e4 := New_RSA_SSA_PSS_Verifier(name, 32, &key.PublicKey)
	verifrt.Assert(e1 != nil && e2 != nil && e3 != nil && e4 != nil, "hash functions other than SHA-256/384/512 are refused for RSA signatures")
	verifrt.Reach("end")
}
