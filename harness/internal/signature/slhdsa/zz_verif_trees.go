package slhdsa

// Tree logic of SLH-DSA (FIPS 205 Algorithms 5-20) checked differentially against an
// independent transcription of the standard's pseudocode. The tweakable hash functions
// F, H, T_l, PRF, PRF_msg, H_msg are UNINTERPRETED functions of their FIPS 205 arguments
// (PK.seed, the full 32-byte ADRS, the message) for both the implementation (ufHashes) and
// the reference (rP.F, rP.H, ...): equal computations give identical terms, every difference in
// an ADRS field, an index, an order of concatenation or a chunk boundary gives different ones.
//
// The reference passes ADRS BY VALUE (every algorithm works on its own copy), the
// implementation passes a pointer and mutates in place: any dependence of the implementation
// on a field left over by a callee shows up as a difference.

import "github.com/tink-crypto/tink-go/v2/internal/verifrt"

// ---------------------------------------------------------------------------------------
// hash layer shared by implementation and reference

func uf(name string, n int, args ...[]byte) []byte {
	if idealised {
		// collision-free idealisation (I1), used only by the "altered signature is rejected" parts
		return verifrt.UFInj(name, n, args...)
	}
	return verifrt.UF(name, n, args...)
}
func ufF(n int, pkSeed, adrs, m []byte) []byte        { return uf("F", n, pkSeed, adrs, m) }
func ufH(n int, pkSeed, adrs, m []byte) []byte        { return uf("H", n, pkSeed, adrs, m) }
func ufT(n int, pkSeed, adrs, m []byte) []byte        { return uf("T", n, pkSeed, adrs, m) }
func ufPRF(n int, pkSeed, skSeed, adrs []byte) []byte { return uf("PRF", n, pkSeed, skSeed, adrs) }
func ufPRFmsg(n int, skPrf, optRand, m []byte) []byte {
	return verifrt.UF("PRFmsg", n, skPrf, optRand, m)
}

// hmsgFix: when set, H_msg called on exactly the expected (R, PK.seed, PK.root, M) returns the
// given digest (a case split over digests keeps the FORS / hypertree indices concrete on each
// path); any other call is reported.
var hmsgFix struct {
	on                     bool
	r, pkSeed, pkRoot, msg []byte
	digest                 []byte
	anyR                   bool
	// alt: the digest H_msg returns for an R other than the expected one (rejection part:
	// "a changed H_msg input gives some other digest")
	alt []byte
}

func ufHmsg(m int, r, pkSeed, pkRoot, msg []byte) []byte {
	if hmsgFix.on {
		ok := verifrt.EqBytes(pkSeed, hmsgFix.pkSeed) && verifrt.EqBytes(pkRoot, hmsgFix.pkRoot) && verifrt.EqBytes(msg, hmsgFix.msg)
		verifrt.Assert(ok, "H_msg is called on (R, PK.seed, PK.root, M)")
		if !hmsgFix.anyR {
			verifrt.Assert(verifrt.EqBytes(r, hmsgFix.r), "H_msg is called on R = PRF_msg(SK.prf, opt_rand, M)")
		}
		verifrt.Assert(m == len(hmsgFix.digest), "H_msg is asked for m bytes")
		if hmsgFix.alt != nil && !verifrt.SameBytes(r, hmsgFix.r) {
			return append([]byte{}, hmsgFix.alt...)
		}
		return append([]byte{}, hmsgFix.digest...)
	}
	return verifrt.UF("Hmsg", m, r, pkSeed, pkRoot, msg)
}

// ufHashes instantiates the six hash fields of params with the uninterpreted functions.
func ufHashes() hashParamsOpts {
	return hashParamsOpts{
		pHMsg: func(r, pkSeed, pkRoot, msg []byte, m uint32) []byte { return ufHmsg(int(m), r, pkSeed, pkRoot, msg) },
		pPrf: func(pkSeed, skSeed []byte, adrs *address, n uint32) []byte {
			return ufPRF(int(n), pkSeed, skSeed, adrs[:])
		},
		pPrfMsg: func(skPrf, optRand, M []byte, n uint32) []byte { return ufPRFmsg(int(n), skPrf, optRand, M) },
		pF: func(pkSeed []byte, adrs *address, M1 []byte, n uint32) []byte {
			return ufF(int(n), pkSeed, adrs[:], M1)
		},
		pH: func(pkSeed []byte, adrs *address, M2 []byte, n uint32) []byte {
			return ufH(int(n), pkSeed, adrs[:], M2)
		},
		pTl: func(pkSeed []byte, adrs *address, Ml []byte, n uint32) []byte {
			return ufT(int(n), pkSeed, adrs[:], Ml)
		},
	}
}

// ---------------------------------------------------------------------------------------
// reference: FIPS 205 section 4.2/4.3 ADRS (Table 1) as a VALUE type

const (
	rWOTS_HASH  = 0
	rWOTS_PK    = 1
	rTREE       = 2
	rFORS_TREE  = 3
	rFORS_ROOTS = 4
	rWOTS_PRF   = 5
	rFORS_PRF   = 6
)

type rADRS [32]byte

// Algorithm 3 toByte for 32- and 64-bit integers.
func rToByte32(x uint32, n int) []byte {
	s := make([]byte, n)
	t := x
	for i := 0; i < n; i++ {
		s[n-1-i] = byte(t)
		t >>= 8
	}
	return s
}

func rToByte64(x uint64, n int) []byte {
	s := make([]byte, n)
	t := x
	for i := 0; i < n; i++ {
		s[n-1-i] = byte(t)
		t >>= 8
	}
	return s
}

func rToInt32(x []byte) uint32 {
	var t uint32
	for _, b := range x {
		t = t<<8 | uint32(b)
	}
	return t
}

func (a *rADRS) setLayerAddress(l uint32) { copy(a[0:4], rToByte32(l, 4)) }
func (a *rADRS) setTreeAddress(t uint64)  { copy(a[4:16], rToByte64(t, 12)) }
func (a *rADRS) setTypeAndClear(y uint32) {
	copy(a[16:20], rToByte32(y, 4))
	copy(a[20:32], rToByte32(0, 12))
}
func (a *rADRS) setKeyPairAddress(i uint32) { copy(a[20:24], rToByte32(i, 4)) }
func (a *rADRS) setChainAddress(i uint32)   { copy(a[24:28], rToByte32(i, 4)) }
func (a *rADRS) setTreeHeight(i uint32)     { copy(a[24:28], rToByte32(i, 4)) }
func (a *rADRS) setHashAddress(i uint32)    { copy(a[28:32], rToByte32(i, 4)) }
func (a *rADRS) setTreeIndex(i uint32)      { copy(a[28:32], rToByte32(i, 4)) }
func (a *rADRS) getKeyPairAddress() uint32  { return rToInt32(a[20:24]) }
func (a *rADRS) getTreeIndex() uint32       { return rToInt32(a[28:32]) }

// rP: parameters of FIPS 205 section 11 / equations 5.1-5.4, computed independently.
type rP struct {
	n, h, d, hp, a, k, lgw, m int
	w, len1, len2, len        int
	// absWots: the three WOTS+ functions are replaced by their abstraction (see absWots*)
	absWots bool
	// absChain: chain is replaced by the uninterpreted function absChain (VerifH_slh_wots_sym)
	absChain bool
}

func newRP(o paramsOpts) *rP {
	r := &rP{n: int(o.n), h: int(o.h), d: int(o.d), hp: int(o.hp), a: int(o.a), k: int(o.k), lgw: int(o.lgw), m: int(o.m)}
	r.w = 1 << r.lgw
	r.len1 = (8*r.n + r.lgw - 1) / r.lgw
	l2 := 0 // floor(log2(len1*(w-1)))
	for (2 << l2) <= r.len1*(r.w-1) {
		l2++
	}
	r.len2 = l2/r.lgw + 1
	r.len = r.len1 + r.len2
	return r
}

func (r *rP) F(pkSeed []byte, adrs rADRS, m []byte) []byte { return ufF(r.n, pkSeed, adrs[:], m) }
func (r *rP) H(pkSeed []byte, adrs rADRS, m []byte) []byte { return ufH(r.n, pkSeed, adrs[:], m) }
func (r *rP) T(pkSeed []byte, adrs rADRS, m []byte) []byte { return ufT(r.n, pkSeed, adrs[:], m) }
func (r *rP) PRF(pkSeed, skSeed []byte, adrs rADRS) []byte {
	return ufPRF(r.n, pkSeed, skSeed, adrs[:])
}
func (r *rP) PRFmsg(skPrf, optRand, m []byte) []byte  { return ufPRFmsg(r.n, skPrf, optRand, m) }
func (r *rP) Hmsg(R, pkSeed, pkRoot, m []byte) []byte { return ufHmsg(r.m, R, pkSeed, pkRoot, m) }
func cat(parts ...[]byte) []byte {
	var out []byte
	for _, p := range parts {
		out = append(out, p...)
	}
	return out
}

// Algorithm 5 chain(X, i, s, PK.seed, ADRS)
func (r *rP) chain(X []byte, i, s uint32, pkSeed []byte, adrs rADRS) []byte {
	if r.absChain && verifrt.Symbolic() {
		return absChain(r.n, X, i, s, pkSeed, adrs[:])
	}
	tmp := X
	for j := i; j < i+s; j++ {
		adrs.setHashAddress(j)
		tmp = r.F(pkSeed, adrs, tmp)
	}
	return tmp
}

// Algorithm 6 wots_pkGen(SK.seed, PK.seed, ADRS)
func (r *rP) wotsPkGen(skSeed, pkSeed []byte, adrs rADRS) []byte {
	if r.absWots && verifrt.Symbolic() {
		return absWotsPk(r.n, skSeed, pkSeed, adrs[:])
	}
	skADRS := adrs
	skADRS.setTypeAndClear(rWOTS_PRF)
	skADRS.setKeyPairAddress(adrs.getKeyPairAddress())
	var tmp []byte
	for i := 0; i < r.len; i++ {
		skADRS.setChainAddress(uint32(i))
		sk := r.PRF(pkSeed, skSeed, skADRS)
		adrs.setChainAddress(uint32(i))
		tmp = append(tmp, r.chain(sk, 0, uint32(r.w-1), pkSeed, adrs)...)
	}
	wotspkADRS := adrs
	wotspkADRS.setTypeAndClear(rWOTS_PK)
	wotspkADRS.setKeyPairAddress(adrs.getKeyPairAddress())
	return r.T(pkSeed, wotspkADRS, tmp)
}

// lines 1-10 of Algorithm 7 / 1-10 of Algorithm 8: message to base w plus checksum digits
func (r *rP) wotsDigits(M []byte) []uint32 {
	csum := uint32(0)
	msg := specBase2b(M, r.lgw, r.len1)
	for i := 0; i < r.len1; i++ {
		csum = csum + uint32(r.w) - 1 - msg[i]
	}
	csum = csum << uint((8-((r.len2*r.lgw)%8))%8)
	return append(msg, specBase2b(rToByte32(csum, (r.len2*r.lgw+7)/8), r.lgw, r.len2)...)
}

// Algorithm 7 wots_sign(M, SK.seed, PK.seed, ADRS)
func (r *rP) wotsSign(M, skSeed, pkSeed []byte, adrs rADRS) []byte {
	if r.absWots && verifrt.Symbolic() {
		return absWotsSign(r.n, r.len, M, skSeed, pkSeed, adrs[:])
	}
	msg := r.wotsDigits(M)
	skADRS := adrs
	skADRS.setTypeAndClear(rWOTS_PRF)
	skADRS.setKeyPairAddress(adrs.getKeyPairAddress())
	var sig []byte
	for i := 0; i < r.len; i++ {
		skADRS.setChainAddress(uint32(i))
		sk := r.PRF(pkSeed, skSeed, skADRS)
		adrs.setChainAddress(uint32(i))
		sig = append(sig, r.chain(sk, 0, msg[i], pkSeed, adrs)...)
	}
	return sig
}

// Algorithm 8 wots_pkFromSig(sig, M, PK.seed, ADRS)
func (r *rP) wotsPkFromSig(sig, M, pkSeed []byte, adrs rADRS) []byte {
	if r.absWots && verifrt.Symbolic() {
		return absWotsPkFromSig(r.n, sig, M, pkSeed, adrs[:])
	}
	msg := r.wotsDigits(M)
	var tmp []byte
	for i := 0; i < r.len; i++ {
		adrs.setChainAddress(uint32(i))
		tmp = append(tmp, r.chain(sig[i*r.n:(i+1)*r.n], msg[i], uint32(r.w)-1-msg[i], pkSeed, adrs)...)
	}
	wotspkADRS := adrs
	wotspkADRS.setTypeAndClear(rWOTS_PK)
	wotspkADRS.setKeyPairAddress(adrs.getKeyPairAddress())
	return r.T(pkSeed, wotspkADRS, tmp)
}

// ---------------------------------------------------------------------------------------
// Abstraction of WOTS+ used by the XMSS / hypertree / SLH harnesses (assume-guarantee; the
// guarantee is VerifH_slh_wots*): the three functions depend only on (PK.seed, SK.seed,
// ADRS bytes 0..23 = layer, tree, type, key pair; the chain and hash words are overwritten
// before use), and wots_pkFromSig(wots_sign(M), M) = wots_pkGen for the same (seeds, ADRS).

// idealised: the "altered signature is rejected" parts state, explicitly, the assumptions
// that rejection rests on (uninterpreted functions alone are not collision free):
//
//	(I1) F, H, T_l, PRF are injective (UFInj),
//	(I2) WOTS+ is unforgeable in the one-time sense: wots_pkFromSig(sig', M') under a key pair
//	     address equals that key pair's public key only for the genuine (sig, M) the signer
//	     produced for it, for no (sig', M') if the key pair never signed;
//	     wots_pkFromSig is injective.
var idealised bool

func absWotsPk(n int, skSeed, pkSeed, adrs []byte) []byte {
	pk := verifrt.UF("WOTSpk", n, pkSeed, skSeed, adrs[:24])
	if idealised {
		verifrt.MemoPut("wotspk", pk, pkSeed, adrs[:24])
	}
	return pk
}

func absWotsSign(n, ln int, M, skSeed, pkSeed, adrs []byte) []byte {
	sig := verifrt.UF("WOTSsig", ln*n, M, pkSeed, skSeed, adrs[:24])
	pk := absWotsPk(n, skSeed, pkSeed, adrs)
	// the law wots_pkFromSig(wots_sign(M), M) = wots_pkGen, (a) as an axiom instance for the
	// solver (arguments that are equal but not literally the same terms), (b) as a syntactic
	// short cut in absWotsPkFromSig
	verifrt.AssumeEq(verifrt.UF("WOTSpkFromSig", n, sig, M, pkSeed, adrs[:24]), pk)
	verifrt.MemoPut("wots", pk, sig, M, pkSeed, adrs[:24])
	if idealised {
		verifrt.MemoPut("wotsgenuine", cat(sig, M), pkSeed, adrs[:24])
	}
	return sig
}

func absWotsPkFromSig(n int, sig, M, pkSeed, adrs []byte) []byte {
	if pk, ok := verifrt.MemoGet("wots", sig, M, pkSeed, adrs[:24]); ok {
		return pk
	}
	if !idealised {
		return verifrt.UF("WOTSpkFromSig", n, sig, M, pkSeed, adrs[:24])
	}
	out := verifrt.UFInj("WOTSpkFromSig", n, sig, M, pkSeed, adrs[:24])
	if pk, ok := verifrt.MemoGet("wotspk", pkSeed, adrs[:24]); ok {
		if g, ok := verifrt.MemoGet("wotsgenuine", pkSeed, adrs[:24]); ok {
			verifrt.Assume(verifrt.Implies(verifrt.EqBytes(out, pk), verifrt.EqBytes(cat(sig, M), g)))
		} else {
			verifrt.Assume(!verifrt.EqBytes(out, pk))
		}
	}
	return out
}

// summarizeWots replaces the implementation's three WOTS+ functions by the abstraction; the
// chain / hash address words of the caller's ADRS, which the real functions leave in a
// state the callers must not rely on, are overwritten with arbitrary bytes.
func summarizeWots() {
	havoc := verifrt.Bytes("wots_adrs_havoc", 8)
	verifrt.Summarize("slhdsa.params).wotsPkGen", func(p *params, skSeed []byte, pkSeed []byte, adrs *address) []byte {
		pk := absWotsPk(int(p.n), skSeed, pkSeed, adrs[:])
		copy(adrs[24:32], havoc)
		return pk
	})
	verifrt.Summarize("slhdsa.params).wotsSign", func(p *params, msg []byte, skSeed []byte, pkSeed []byte, adrs *address) []byte {
		sig := absWotsSign(int(p.n), int(p.len), msg, skSeed, pkSeed, adrs[:])
		copy(adrs[24:32], havoc)
		return sig
	})
	verifrt.Summarize("slhdsa.params).wotsPkFromSig", func(p *params, sig []byte, msg []byte, pkSeed []byte, adrs *address) []byte {
		if len(sig) != int(p.len*p.n) {
			panic("unreachable")
		}
		pk := absWotsPkFromSig(int(p.n), sig, msg, pkSeed, adrs[:])
		copy(adrs[24:32], havoc)
		return pk
	})
}

func implAdrs(b []byte) *address {
	a := newAddress()
	copy(a[:], b)
	return a
}

func refAdrs(b []byte) rADRS {
	var a rADRS
	copy(a[:], b)
	return a
}

// ---------------------------------------------------------------------------------------
// WOTS+ (Algorithms 5-8), real shapes: n = 16, 24, 32 (len = 35, 51, 67), w = 16.

var wotsShapes = [...]paramsOpts{param128f, param192f, param256f}

// wotsMsg: a message whose base-16 digits cover 0..15, with `sym` consecutive digits starting
// at digit position pos taking every value (a case split: one path per value, so that the
// number of chain steps is concrete on each path).
func wotsMsg(n, pos, sym int) []byte {
	M := make([]byte, n)
	for i := range M {
		M[i] = byte(i*0x1d + 0x5a)
	}
	for q := 0; q < sym; q++ {
		nib := (pos + q) % (2 * n)
		v := byte(verifrt.Choice([]string{"digit0", "digit1"}[q], 16))
		if nib%2 == 0 {
			M[nib/2] = M[nib/2]&0x0f | v<<4
		} else {
			M[nib/2] = M[nib/2]&0xf0 | v
		}
	}
	return M
}

// VerifH_slh_wots: chain for every (i, s) with i+s <= w-1; wots_pkGen; wots_sign and
// wots_pkFromSig (on an arbitrary signature and on the genuine one) equal the reference and
// pkFromSig(sign(M), M) == pkGen(). ADRS (all 32 bytes), PK.seed, SK.seed, X symbolic.
func VerifH_slh_wots() {
	shape := wotsShapes[verifrt.Choice("n", len(wotsShapes))]
	p := newParams(shape, ufHashes())
	r := newRP(shape)
	verifrt.Assert(int(p.len) == r.len && int(p.len1) == r.len1 && int(p.w) == r.w, "len, len1, w as in FIPS 205 eq. 5.1-5.4")
	n := r.n
	pkSeed, skSeed := verifrt.Bytes("pkseed", n), verifrt.Bytes("skseed", n)
	ab := verifrt.Bytes("adrs", 32)
	switch verifrt.Choice("part", 3) {
	case 0: // Algorithm 5
		X := verifrt.Bytes("X", n)
		for i := 0; i < r.w; i++ {
			for s := 0; i+s <= r.w-1; s++ {
				a := implAdrs(ab)
				got := p.chain(X, uint32(i), uint32(s), pkSeed, a)
				verifrt.AssertEq(got, r.chain(X, uint32(i), uint32(s), pkSeed, refAdrs(ab)), "chain(X,i,s) == Algorithm 5")
				verifrt.AssertEq(a[:28], ab[:28], "chain touches only the hash address word")
			}
		}
		// composition: chain(chain(X, i, s1), i+s1, s2) == chain(X, i, s1+s2). With the chain-level
		// structure shown for a fully symbolic message by VerifH_slh_wots_sym this gives
		// wots_pkFromSig(wots_sign(M), M) == wots_pkGen for every M.
		for i := 0; i < r.w; i++ {
			for s1 := 0; i+s1 <= r.w-1; s1++ {
				for s2 := 0; i+s1+s2 <= r.w-1; s2++ {
					mid := p.chain(X, uint32(i), uint32(s1), pkSeed, implAdrs(ab))
					verifrt.AssertEq(p.chain(mid, uint32(i+s1), uint32(s2), pkSeed, implAdrs(ab)), p.chain(X, uint32(i), uint32(s1+s2), pkSeed, implAdrs(ab)), "chain(chain(X,i,s1),i+s1,s2) == chain(X,i,s1+s2)")
				}
			}
		}
		verifrt.Reach("chain")
	case 1: // Algorithm 6
		got := p.wotsPkGen(skSeed, pkSeed, implAdrs(ab))
		verifrt.AssertEq(got, r.wotsPkGen(skSeed, pkSeed, refAdrs(ab)), "wots_pkGen == Algorithm 6")
		// bytes 24..31 (chain, hash address) of the incoming ADRS are irrelevant
		ab2 := cat(ab[:24], verifrt.Bytes("adrs_tail", 8))
		verifrt.AssertEq(p.wotsPkGen(skSeed, pkSeed, implAdrs(ab2)), got, "wots_pkGen ignores the incoming chain / hash address words")
		verifrt.Reach("pkgen")
	case 2: // Algorithms 7, 8 for messages with `sym` symbolic digits at position pos
		// quick: digit positions 0, 1, len1-2, len1-1 for n=16 and 0, len1-1 for n=24, 32, each
		// taking all 16 values; thorough: every position for n=16, eight positions otherwise
		positions := []int{0, 2*n - 1}
		if n == 16 {
			positions = []int{0, 1, 2*n - 2, 2*n - 1}
		}
		if verifrt.Thorough() {
			positions = nil
			for q := 0; q < 2*n; q++ {
				if n == 16 || q%(n/4) == 0 || q == 2*n-1 {
					positions = append(positions, q)
				}
			}
		}
		M := wotsMsg(n, positions[verifrt.Choice("pos", len(positions))], 1)
		sig := p.wotsSign(M, skSeed, pkSeed, implAdrs(ab))
		verifrt.Assert(len(sig) == r.len*n, "signature has len*n bytes")
		verifrt.AssertEq(sig, r.wotsSign(M, skSeed, pkSeed, refAdrs(ab)), "wots_sign == Algorithm 7")
		pk := p.wotsPkFromSig(sig, M, pkSeed, implAdrs(ab))
		verifrt.AssertEq(pk, r.wotsPkFromSig(sig, M, pkSeed, refAdrs(ab)), "wots_pkFromSig(genuine) == Algorithm 8")
		verifrt.AssertEq(pk, p.wotsPkGen(skSeed, pkSeed, implAdrs(ab)), "wots_pkFromSig(wots_sign(M), M) == wots_pkGen")
		verifrt.AssertEq(pk, r.wotsPkGen(skSeed, pkSeed, refAdrs(ab)), "wots_pkFromSig(wots_sign(M), M) == Algorithm 6")
		// an arbitrary (adversarial) signature
		asig := verifrt.Bytes("asig", r.len*n)
		verifrt.AssertEq(p.wotsPkFromSig(asig, M, pkSeed, implAdrs(ab)), r.wotsPkFromSig(asig, M, pkSeed, refAdrs(ab)), "wots_pkFromSig(arbitrary sig) == Algorithm 8")
		verifrt.Reach("sign")
	}
}

// absChain: chain(X, i, s, PK.seed, ADRS) as an uninterpreted function of X, i, s, PK.seed and
// ADRS bytes 0..27 (justified by part 0 of VerifH_slh_wots: for every concrete (i, s) the real
// chain equals Algorithm 5, which reads exactly those and overwrites the hash address word).
func absChain(n int, X []byte, i, s uint32, pkSeed, adrs []byte) []byte {
	return verifrt.UF("CHAIN", n, X, rToByte32(i, 4), rToByte32(s, 4), pkSeed, adrs[:28])
}

// VerifH_slh_wots_sym: Algorithms 6-8 for a FULLY symbolic message (all 16^len1 digit
// strings at once): which chain gets which digit as start index / step count, the PRF and
// chain ADRS of every chain, signature chunking, the WOTS_PK compression address. The chain
// function itself is abstracted (a symbolic step count would fork 16 ways per chain).
func VerifH_slh_wots_sym() {
	verifrt.NativeSkip("chain is summarised")
	shape := wotsShapes[verifrt.Choice("n", len(wotsShapes))]
	p := newParams(shape, ufHashes())
	r := newRP(shape)
	r.absChain = true
	n := r.n
	havoc := verifrt.Bytes("hash_word_havoc", 4)
	verifrt.Summarize("slhdsa.params).chain", func(p *params, x []byte, i uint32, s uint32, pkSeed []byte, adrs *address) []byte {
		out := absChain(int(p.n), x, i, s, pkSeed, adrs[:])
		copy(adrs[28:32], havoc)
		return out
	})
	// base_2b is replaced by its specification (guarantee: VerifH_slh_base2b, which proves
	// base2b == specBase2b for the (b, out_len) pairs (lg_w, len1) and (lg_w, len2) used here)
	verifrt.Summarize("signature/slhdsa.base2b", func(x []byte, b uint32, outLen uint32) []uint32 {
		return specBase2b(x, int(b), int(outLen))
	})
	pkSeed, skSeed := verifrt.Bytes("pkseed", n), verifrt.Bytes("skseed", n)
	ab := verifrt.Bytes("adrs", 32)
	M := verifrt.Bytes("M", n)
	verifrt.AssertEq(p.wotsPkGen(skSeed, pkSeed, implAdrs(ab)), r.wotsPkGen(skSeed, pkSeed, refAdrs(ab)), "wots_pkGen == Algorithm 6")
	sig := p.wotsSign(M, skSeed, pkSeed, implAdrs(ab))
	verifrt.AssertEq(sig, r.wotsSign(M, skSeed, pkSeed, refAdrs(ab)), "wots_sign == Algorithm 7 (symbolic message)")
	asig := verifrt.Bytes("asig", r.len*n)
	verifrt.AssertEq(p.wotsPkFromSig(asig, M, pkSeed, implAdrs(ab)), r.wotsPkFromSig(asig, M, pkSeed, refAdrs(ab)), "wots_pkFromSig == Algorithm 8 (symbolic message, arbitrary signature)")
	verifrt.AssertEq(p.wotsPkFromSig(sig, M, pkSeed, implAdrs(ab)), r.wotsPkFromSig(sig, M, pkSeed, refAdrs(ab)), "wots_pkFromSig == Algorithm 8 (symbolic message, genuine signature)")
	verifrt.Reach("end")
}

// ---------------------------------------------------------------------------------------
// reference: XMSS (Algorithms 9-11), hypertree (12, 13), FORS (14-17), SLH-DSA (18-20)

// Algorithm 9 xmss_node(SK.seed, i, z, PK.seed, ADRS)
func (r *rP) xmssNode(skSeed []byte, i uint32, z int, pkSeed []byte, adrs rADRS) []byte {
	if z == 0 {
		adrs.setTypeAndClear(rWOTS_HASH)
		adrs.setKeyPairAddress(i)
		return r.wotsPkGen(skSeed, pkSeed, adrs)
	}
	lnode := r.xmssNode(skSeed, 2*i, z-1, pkSeed, adrs)
	rnode := r.xmssNode(skSeed, 2*i+1, z-1, pkSeed, adrs)
	adrs.setTypeAndClear(rTREE)
	adrs.setTreeHeight(uint32(z))
	adrs.setTreeIndex(i)
	return r.H(pkSeed, adrs, cat(lnode, rnode))
}

// xmssLevels: the same tree written bottom-up (all 2^h' WOTS+ public keys, then level by
// level), a second formulation that shares no control structure with the recursion.
func (r *rP) xmssLevels(skSeed, pkSeed []byte, adrs rADRS) [][][]byte {
	levels := make([][][]byte, r.hp+1)
	for i := 0; i < 1<<r.hp; i++ {
		a := adrs
		a.setTypeAndClear(rWOTS_HASH)
		a.setKeyPairAddress(uint32(i))
		levels[0] = append(levels[0], r.wotsPkGen(skSeed, pkSeed, a))
	}
	for z := 1; z <= r.hp; z++ {
		for i := 0; i < 1<<(r.hp-z); i++ {
			a := adrs
			a.setTypeAndClear(rTREE)
			a.setTreeHeight(uint32(z))
			a.setTreeIndex(uint32(i))
			levels[z] = append(levels[z], r.H(pkSeed, a, cat(levels[z-1][2*i], levels[z-1][2*i+1])))
		}
	}
	return levels
}

// Algorithm 10 xmss_sign(M, SK.seed, idx, PK.seed, ADRS)
func (r *rP) xmssSign(M, skSeed []byte, idx uint32, pkSeed []byte, adrs rADRS) []byte {
	var auth []byte
	for j := 0; j < r.hp; j++ {
		k := (idx >> uint(j)) ^ 1
		auth = append(auth, r.xmssNode(skSeed, k, j, pkSeed, adrs)...)
	}
	adrs.setTypeAndClear(rWOTS_HASH)
	adrs.setKeyPairAddress(idx)
	sig := r.wotsSign(M, skSeed, pkSeed, adrs)
	return cat(sig, auth)
}

// Algorithm 11 xmss_pkFromSig(idx, SIG_XMSS, M, PK.seed, ADRS)
func (r *rP) xmssPkFromSig(idx uint32, sigXmss, M, pkSeed []byte, adrs rADRS) []byte {
	adrs.setTypeAndClear(rWOTS_HASH)
	adrs.setKeyPairAddress(idx)
	sig := sigXmss[:r.len*r.n]  // SIG_XMSS.getWOTSSig()
	auth := sigXmss[r.len*r.n:] // SIG_XMSS.getXMSSAUTH()
	node0 := r.wotsPkFromSig(sig, M, pkSeed, adrs)
	adrs.setTypeAndClear(rTREE)
	adrs.setTreeIndex(idx)
	for k := 0; k < r.hp; k++ {
		adrs.setTreeHeight(uint32(k + 1))
		authK := auth[k*r.n : (k+1)*r.n]
		var node1 []byte
		if (idx>>uint(k))%2 == 0 {
			adrs.setTreeIndex(adrs.getTreeIndex() / 2)
			node1 = r.H(pkSeed, adrs, cat(node0, authK))
		} else {
			adrs.setTreeIndex((adrs.getTreeIndex() - 1) / 2)
			node1 = r.H(pkSeed, adrs, cat(authK, node0))
		}
		node0 = node1
	}
	return node0
}

// Algorithm 12 ht_sign(M, SK.seed, PK.seed, idx_tree, idx_leaf)
func (r *rP) htSign(M, skSeed, pkSeed []byte, idxTree uint64, idxLeaf uint32) []byte {
	var adrs rADRS // toByte(0, 32)
	adrs.setTreeAddress(idxTree)
	sigTmp := r.xmssSign(M, skSeed, idxLeaf, pkSeed, adrs)
	sigHT := sigTmp
	root := r.xmssPkFromSig(idxLeaf, sigTmp, M, pkSeed, adrs)
	for j := 1; j < r.d; j++ {
		idxLeaf = uint32(idxTree % (uint64(1) << uint(r.hp)))
		idxTree = idxTree >> uint(r.hp)
		adrs.setLayerAddress(uint32(j))
		adrs.setTreeAddress(idxTree)
		sigTmp = r.xmssSign(root, skSeed, idxLeaf, pkSeed, adrs)
		sigHT = cat(sigHT, sigTmp)
		if j < r.d-1 {
			root = r.xmssPkFromSig(idxLeaf, sigTmp, root, pkSeed, adrs)
		}
	}
	return sigHT
}

// Algorithm 13 ht_verify, returning the recomputed root (line 12 compares it with PK.root)
func (r *rP) htRoot(M, sigHT, pkSeed []byte, idxTree uint64, idxLeaf uint32) []byte {
	var adrs rADRS
	adrs.setTreeAddress(idxTree)
	xl := (r.hp + r.len) * r.n
	sigTmp := sigHT[0:xl] // SIG_HT.getXMSSSignature(0)
	node := r.xmssPkFromSig(idxLeaf, sigTmp, M, pkSeed, adrs)
	for j := 1; j < r.d; j++ {
		idxLeaf = uint32(idxTree % (uint64(1) << uint(r.hp)))
		idxTree = idxTree >> uint(r.hp)
		adrs.setLayerAddress(uint32(j))
		adrs.setTreeAddress(idxTree)
		sigTmp = sigHT[j*xl : (j+1)*xl]
		node = r.xmssPkFromSig(idxLeaf, sigTmp, node, pkSeed, adrs)
	}
	return node
}

// Algorithm 14 fors_skGen(SK.seed, PK.seed, ADRS, idx)
func (r *rP) forsSkGen(skSeed, pkSeed []byte, adrs rADRS, idx uint32) []byte {
	skADRS := adrs
	skADRS.setTypeAndClear(rFORS_PRF)
	skADRS.setKeyPairAddress(adrs.getKeyPairAddress())
	skADRS.setTreeIndex(idx)
	return r.PRF(pkSeed, skSeed, skADRS)
}

// Algorithm 15 fors_node(SK.seed, i, z, PK.seed, ADRS)
func (r *rP) forsNode(skSeed []byte, i uint32, z int, pkSeed []byte, adrs rADRS) []byte {
	if z == 0 {
		sk := r.forsSkGen(skSeed, pkSeed, adrs, i)
		adrs.setTreeHeight(0)
		adrs.setTreeIndex(i)
		return r.F(pkSeed, adrs, sk)
	}
	lnode := r.forsNode(skSeed, 2*i, z-1, pkSeed, adrs)
	rnode := r.forsNode(skSeed, 2*i+1, z-1, pkSeed, adrs)
	adrs.setTreeHeight(uint32(z))
	adrs.setTreeIndex(i)
	return r.H(pkSeed, adrs, cat(lnode, rnode))
}

// Algorithm 16 fors_sign(md, SK.seed, PK.seed, ADRS)
func (r *rP) forsSign(md, skSeed, pkSeed []byte, adrs rADRS) []byte {
	var sigFors []byte
	indices := specBase2b(md, r.a, r.k)
	for i := 0; i < r.k; i++ {
		sigFors = cat(sigFors, r.forsSkGen(skSeed, pkSeed, adrs, uint32(i)*(1<<uint(r.a))+indices[i]))
		var auth []byte
		for j := 0; j < r.a; j++ {
			s := (indices[i] >> uint(j)) ^ 1
			auth = cat(auth, r.forsNode(skSeed, uint32(i)*(1<<uint(r.a-j))+s, j, pkSeed, adrs))
		}
		sigFors = cat(sigFors, auth)
	}
	return sigFors
}

// Algorithm 17 fors_pkFromSig(SIG_FORS, md, PK.seed, ADRS)
func (r *rP) forsPkFromSig(sigFors, md, pkSeed []byte, adrs rADRS) []byte {
	indices := specBase2b(md, r.a, r.k)
	var root []byte
	for i := 0; i < r.k; i++ {
		sk := sigFors[i*(r.a+1)*r.n : (i*(r.a+1)+1)*r.n] // SIG_FORS.getSK(i)
		adrs.setTreeHeight(0)
		adrs.setTreeIndex(uint32(i)*(1<<uint(r.a)) + indices[i])
		node0 := r.F(pkSeed, adrs, sk)
		auth := sigFors[(i*(r.a+1)+1)*r.n : (i+1)*(r.a+1)*r.n] // SIG_FORS.getAUTH(i)
		for j := 0; j < r.a; j++ {
			adrs.setTreeHeight(uint32(j + 1))
			authJ := auth[j*r.n : (j+1)*r.n]
			var node1 []byte
			if (indices[i]>>uint(j))%2 == 0 {
				adrs.setTreeIndex(adrs.getTreeIndex() / 2)
				node1 = r.H(pkSeed, adrs, cat(node0, authJ))
			} else {
				adrs.setTreeIndex((adrs.getTreeIndex() - 1) / 2)
				node1 = r.H(pkSeed, adrs, cat(authJ, node0))
			}
			node0 = node1
		}
		root = cat(root, node0)
	}
	forspkADRS := adrs
	forspkADRS.setTypeAndClear(rFORS_ROOTS)
	forspkADRS.setKeyPairAddress(adrs.getKeyPairAddress())
	return r.T(pkSeed, forspkADRS, root)
}

// Algorithm 18 slh_keygen_internal: PK.root
func (r *rP) keygenRoot(skSeed, pkSeed []byte) []byte {
	var adrs rADRS
	adrs.setLayerAddress(uint32(r.d - 1))
	return r.xmssNode(skSeed, 0, r.hp, pkSeed, adrs)
}

// lines 6-13 of Algorithm 19 / 8-15 of Algorithm 20
func (r *rP) splitDigest(digest []byte) (md []byte, idxTree uint64, idxLeaf uint32) {
	l1 := (r.k*r.a + 7) / 8
	l2 := (r.h - r.h/r.d + 7) / 8
	l3 := (r.h + 8*r.d - 1) / (8 * r.d)
	md = digest[0:l1]
	tmpIdxTree := digest[l1 : l1+l2]
	tmpIdxLeaf := digest[l1+l2 : l1+l2+l3]
	idxTree = specToInt(tmpIdxTree)
	if r.h-r.h/r.d < 64 {
		idxTree = idxTree % (uint64(1) << uint(r.h-r.h/r.d))
	}
	idxLeaf = uint32(specToInt(tmpIdxLeaf) % (uint64(1) << uint(r.h/r.d)))
	return
}

// Algorithm 19 slh_sign_internal(M, SK, addrnd)
func (r *rP) signInternal(M, skSeed, skPrf, pkSeed, pkRoot, addrnd []byte) []byte {
	var adrs rADRS
	optRand := addrnd
	R := r.PRFmsg(skPrf, optRand, M)
	sig := R
	digest := r.Hmsg(R, pkSeed, pkRoot, M)
	md, idxTree, idxLeaf := r.splitDigest(digest)
	adrs.setTreeAddress(idxTree)
	adrs.setTypeAndClear(rFORS_TREE)
	adrs.setKeyPairAddress(idxLeaf)
	sigFors := r.forsSign(md, skSeed, pkSeed, adrs)
	sig = cat(sig, sigFors)
	pkFors := r.forsPkFromSig(sigFors, md, pkSeed, adrs)
	sigHT := r.htSign(pkFors, skSeed, pkSeed, idxTree, idxLeaf)
	return cat(sig, sigHT)
}

// Algorithm 20 slh_verify_internal(M, SIG, PK): ok=false for a wrong length, otherwise the
// root ht_verify compares with PK.root
func (r *rP) verifyRoot(M, sig, pkSeed, pkRoot []byte) (root []byte, ok bool) {
	if len(sig) != (1+r.k*(1+r.a)+r.h+r.d*r.len)*r.n {
		return nil, false
	}
	var adrs rADRS
	R := sig[0:r.n]
	sigFors := sig[r.n : (1+r.k*(1+r.a))*r.n]
	sigHT := sig[(1+r.k*(1+r.a))*r.n : (1+r.k*(1+r.a)+r.h+r.d*r.len)*r.n]
	digest := r.Hmsg(R, pkSeed, pkRoot, M)
	md, idxTree, idxLeaf := r.splitDigest(digest)
	adrs.setTreeAddress(idxTree)
	adrs.setTypeAndClear(rFORS_TREE)
	adrs.setKeyPairAddress(idxLeaf)
	pkFors := r.forsPkFromSig(sigFors, md, pkSeed, adrs)
	return r.htRoot(pkFors, sigHT, pkSeed, idxTree, idxLeaf), true
}

// smallShape: a reduced (h', d, a, k) with the real n = 16, lg_w = 4 (len = 35)
func smallShape(hp, d, a, k int) paramsOpts {
	h := hp * d
	return paramsOpts{n: 16, h: uint32(h), d: uint32(d), hp: uint32(hp), a: uint32(a), k: uint32(k), lgw: 4,
		m: uint32((k*a+7)/8 + (h-hp+7)/8 + (hp+7)/8)}
}

// ---------------------------------------------------------------------------------------
// XMSS

// VerifH_slh_xmss: every node (i, z) of a tree of height h' equals the recursive reference
// and the bottom-up one; for every leaf index xmss_sign equals the reference, its
// authentication path is the sibling nodes in bottom-up order, and xmss_pkFromSig returns the
// root (on the genuine signature) / the reference value (on an arbitrary signature).
// SK.seed, PK.seed, M and the incoming ADRS (all 32 bytes) are symbolic.
func VerifH_slh_xmss() {
	// mode 0: WOTS+ abstracted, M symbolic, idx symbolic (forks in pkFromSig), h' in {2,3} (thorough: 4 too)
	// mode 1: WOTS+ abstracted, idx a case split, same h'
	// mode 2: real WOTS+ code, concrete M (symbolic digits would fork), h' = 2, idx a case split
	mode := verifrt.Choice("mode", 3)
	hps := []int{2, 3}
	if verifrt.Thorough() {
		hps = []int{2, 3, 4}
	}
	if mode == 2 {
		hps = []int{2}
	}
	hp := hps[verifrt.Choice("hp", len(hps))]
	shape := smallShape(hp, 2, 2, 2)
	p := newParams(shape, ufHashes())
	r := newRP(shape)
	n := r.n
	if mode != 2 {
		verifrt.NativeSkip("WOTS+ is summarised")
		summarizeWots()
		r.absWots = true
	}
	pkSeed, skSeed := verifrt.Bytes("pkseed", n), verifrt.Bytes("skseed", n)
	ab := verifrt.Bytes("adrs", 32)
	var M []byte
	if mode == 2 {
		M = make([]byte, n)
		for i := range M {
			M[i] = byte(i*0x1d + 0x5a)
		}
	} else {
		M = verifrt.Bytes("M", n)
	}
	levels := r.xmssLevels(skSeed, pkSeed, refAdrs(ab))
	root := levels[hp][0]
	switch verifrt.Choice("part", 2) {
	case 0:
		for z := 0; z <= hp; z++ {
			for i := 0; i < 1<<(hp-z); i++ {
				got := p.xmssNode(skSeed, uint32(i), uint32(z), pkSeed, implAdrs(ab))
				verifrt.AssertEq(got, r.xmssNode(skSeed, uint32(i), z, pkSeed, refAdrs(ab)), "xmss_node(i,z) == Algorithm 9")
				verifrt.AssertEq(got, levels[z][i], "xmss_node(i,z) == bottom-up tree")
			}
		}
		verifrt.Reach("nodes")
	case 1:
		var idx uint32
		if mode == 0 {
			idx = verifrt.Uint32("sidx")
			verifrt.Assume(idx < 1<<uint(hp))
		} else {
			idx = uint32(verifrt.Choice("idx", 1<<hp))
		}
		sig := p.xmssSign(M, skSeed, idx, pkSeed, implAdrs(ab))
		verifrt.Assert(len(sig) == (r.len+hp)*n, "SIG_XMSS has (len + h') n bytes")
		verifrt.AssertEq(sig, r.xmssSign(M, skSeed, idx, pkSeed, refAdrs(ab)), "xmss_sign == Algorithm 10")
		for j := 0; j < hp; j++ {
			verifrt.AssertEq(sig[(r.len+j)*n:(r.len+j+1)*n], r.xmssNode(skSeed, (idx>>uint(j))^1, j, pkSeed, refAdrs(ab)), "AUTH[j] is the sibling at height j, after the WOTS+ signature, bottom-up")
		}
		got := p.xmssPkFromSig(idx, sig, M, pkSeed, implAdrs(ab))
		verifrt.AssertEq(got, r.xmssPkFromSig(idx, sig, M, pkSeed, refAdrs(ab)), "xmss_pkFromSig(genuine) == Algorithm 11")
		verifrt.AssertEq(got, root, "xmss_pkFromSig(xmss_sign(M, idx)) == root for every leaf")
		verifrt.AssertEq(got, p.xmssNode(skSeed, 0, uint32(hp), pkSeed, implAdrs(ab)), "xmss_pkFromSig(xmss_sign(M, idx)) == xmss_node(0, h')")
		asig := verifrt.Bytes("asig", (r.len+hp)*n)
		verifrt.AssertEq(p.xmssPkFromSig(idx, asig, M, pkSeed, implAdrs(ab)), r.xmssPkFromSig(idx, asig, M, pkSeed, refAdrs(ab)), "xmss_pkFromSig(arbitrary sig) == Algorithm 11")
		verifrt.Reach("sign")
	}
}

// ---------------------------------------------------------------------------------------
// hypertree

func htIdx(h, hp int) (uint64, uint32) {
	pat := [...]uint64{0x5a5a5a5a5a5a5a5a, 0xffffffffffffffff, 0x0123456789abcdef}[verifrt.Choice("idxpat", 3)]
	t := pat
	if h-hp < 64 {
		t &= uint64(1)<<uint(h-hp) - 1
	}
	return t, uint32(pat>>7) & (1<<uint(hp) - 1)
}

// VerifH_slh_ht: ht_sign / ht_verify (Algorithms 12, 13) with WOTS+ abstracted.
//
//	mode 0: reduced shape h'=2, d=3 (thorough: also h'=3,d=2 and h'=2,d=4), n=16; EVERY in-range
//	        (idx_tree, idx_leaf) by case split (2^h paths); M, seeds symbolic.
//	mode 1: real shapes (h', d) = (3, 22) and (4, 17) (thorough: also (9, 7), (8, 8)), three concrete
//	        (idx_tree, idx_leaf) patterns.
//	mode 2: reduced shape h'=2, d=2; one n-byte element of SIG_HT (case split; quick 8 of the 74, thorough all) is
//	        XORed with an arbitrary non-zero delta: ht_verify == (reference root of the altered
//	        signature == PK.root), and under (I1), (I2) it rejects.
//	mode 3: reduced shape h'=2, d=2; idx_tree, idx_leaf SYMBOLIC and unconstrained (64 / 32 bit,
//	        i.e. including out-of-range values) for the comparison with the reference, then
//	        assumed in range for acceptance (the index arithmetic is decided by the solver).
func VerifH_slh_ht()         { htBody(verifrt.Choice("mode", 2)) }
func VerifH_slh_ht_altered() { htBody(2) }
func VerifH_slh_ht_symidx()  { htBody(3) }

func htBody(mode int) {
	verifrt.NativeSkip("WOTS+ is summarised")
	idealised = mode == 2
	var shape paramsOpts
	switch mode {
	case 0:
		sh := []paramsOpts{smallShape(2, 3, 2, 2)}
		if verifrt.Thorough() {
			sh = append(sh, smallShape(3, 2, 2, 2), smallShape(2, 4, 2, 2))
		}
		shape = sh[verifrt.Choice("shape", len(sh))]
	case 1:
		sh := []paramsOpts{param128f, param256f}
		if verifrt.Thorough() {
			sh = append(sh, param128s, param256s)
		}
		shape = sh[verifrt.Choice("shape", len(sh))]
	case 2:
		shape = smallShape(2, 2, 2, 2)
	case 3:
		shape = smallShape(2, 2, 2, 2)
	}
	p := newParams(shape, ufHashes())
	r := newRP(shape)
	r.absWots = true
	summarizeWots()
	n := r.n
	pkSeed, skSeed := verifrt.Bytes("pkseed", n), verifrt.Bytes("skseed", n)
	M := verifrt.Bytes("M", n)
	var idxTree uint64
	var idxLeaf uint32
	switch mode {
	case 0:
		idxTree, idxLeaf = uint64(verifrt.Choice("idxtree", 1<<uint(r.h-r.hp))), uint32(verifrt.Choice("idxleaf", 1<<uint(r.hp)))
	case 3:
		idxTree, idxLeaf = verifrt.Uint64("sidxtree"), verifrt.Uint32("sidxleaf")
	default:
		idxTree, idxLeaf = htIdx(r.h, r.hp)
	}
	_, pk := p.slhKeygenInternal(skSeed, verifrt.Bytes("skprf", n), pkSeed)
	verifrt.AssertEq(pk.pkRoot, r.keygenRoot(skSeed, pkSeed), "PK.root == Algorithm 18 (xmss_node(0, h') at layer d-1, tree 0)")
	verifrt.AssertEq(pk.pkSeed, pkSeed, "PK.seed")

	sig := p.htSign(M, skSeed, pkSeed, idxTree, idxLeaf)
	verifrt.Assert(len(sig) == (r.h+r.d*r.len)*n, "SIG_HT has (h + d len) n bytes")
	verifrt.AssertEq(sig, r.htSign(M, skSeed, pkSeed, idxTree, idxLeaf), "ht_sign == Algorithm 12")
	xl := (r.hp + r.len) * n
	// layer j signs with leaf (idx >> (j-1)h') mod 2^h' of tree idx >> j h' (idx = idx_tree), layer 0 with (idx_leaf, idx_tree)
	leafJ, treeJ, msgJ := idxLeaf, idxTree, M
	for j := 0; j < r.d; j++ {
		var a rADRS
		a.setLayerAddress(uint32(j))
		a.setTreeAddress(treeJ)
		verifrt.AssertEq(sig[j*xl:(j+1)*xl], r.xmssSign(msgJ, skSeed, leafJ, pkSeed, a), "SIG_HT[j] = xmss_sign(root of layer j-1) with layer j, tree idx_tree >> j h', leaf = next h' bits")
		msgJ = r.xmssPkFromSig(leafJ, sig[j*xl:(j+1)*xl], msgJ, pkSeed, a)
		leafJ = uint32(treeJ % (uint64(1) << uint(r.hp)))
		treeJ = treeJ / (uint64(1) << uint(r.hp))
	}
	if mode == 3 {
		verifrt.Assume(idxLeaf < 1<<uint(r.hp))
		verifrt.Assume(idxTree < uint64(1)<<uint(r.h-r.hp))
	}
	if mode != 2 {
		verifrt.AssertEq(r.htRoot(M, sig, pkSeed, idxTree, idxLeaf), pk.pkRoot, "reference root of ht_sign's signature == PK.root")
		verifrt.Assert(p.htVerify(M, sig, pkSeed, idxTree, idxLeaf, pk.pkRoot), "ht_verify(ht_sign(M)) accepts")
		other := verifrt.Bytes("otherroot", n)
		verifrt.Assert(p.htVerify(M, sig, pkSeed, idxTree, idxLeaf, other) == verifrt.EqBytes(other, pk.pkRoot), "ht_verify against another PK.root accepts iff it equals the recomputed root")
		asig := verifrt.Bytes("asig", len(sig))
		verifrt.Assert(p.htVerify(M, asig, pkSeed, idxTree, idxLeaf, pk.pkRoot) == verifrt.EqBytes(r.htRoot(M, asig, pkSeed, idxTree, idxLeaf), pk.pkRoot), "ht_verify(arbitrary SIG_HT) == (Algorithm 13 root == PK.root)")
		verifrt.Reach("ht")
		return
	}
	// mode 2: altered signature
	// quick: per layer the first and last WOTS+ chunk and both authentication path nodes;
	// thorough: every one of the d (len + h') elements
	var els []int
	for e := 0; e < r.d*(r.hp+r.len); e++ {
		if q := e % (r.hp + r.len); verifrt.Thorough() || q == 0 || q >= r.len-1 {
			els = append(els, e)
		}
	}
	el := els[verifrt.Choice("element", len(els))]
	delta := verifrt.Bytes("delta", n)
	verifrt.Assume(!verifrt.EqBytes(delta, make([]byte, n)))
	bad := append([]byte{}, sig...)
	for i := 0; i < n; i++ {
		bad[el*n+i] ^= delta[i]
	}
	got := p.htVerify(M, bad, pkSeed, idxTree, idxLeaf, pk.pkRoot)
	verifrt.Assert(got == verifrt.EqBytes(r.htRoot(M, bad, pkSeed, idxTree, idxLeaf), pk.pkRoot), "ht_verify(altered SIG_HT) == (Algorithm 13 root of the altered signature == PK.root)")
	verifrt.Assert(!got, "a SIG_HT with one altered n-byte element is rejected (under I1, I2)")
	verifrt.Assert(p.htVerify(M, sig, pkSeed, idxTree, idxLeaf, pk.pkRoot), "the unaltered signature is accepted (assumptions are consistent)")
	verifrt.Reach("altered")
}

// ---------------------------------------------------------------------------------------
// FORS

// forsLevels: the k FORS trees written bottom-up: levels[z][j] is the node with tree height z
// and tree index j (j runs over all k trees: tree i owns indices i 2^(a-z) .. (i+1) 2^(a-z) - 1).
func (r *rP) forsLevels(skSeed, pkSeed []byte, adrs rADRS) [][][]byte {
	levels := make([][][]byte, r.a+1)
	for j := 0; j < r.k<<uint(r.a); j++ {
		skA := adrs
		skA.setTypeAndClear(rFORS_PRF)
		skA.setKeyPairAddress(adrs.getKeyPairAddress())
		skA.setTreeIndex(uint32(j))
		a := adrs
		a.setTreeHeight(0)
		a.setTreeIndex(uint32(j))
		levels[0] = append(levels[0], r.F(pkSeed, a, r.PRF(pkSeed, skSeed, skA)))
	}
	for z := 1; z <= r.a; z++ {
		for j := 0; j < r.k<<uint(r.a-z); j++ {
			a := adrs
			a.setTreeHeight(uint32(z))
			a.setTreeIndex(uint32(j))
			levels[z] = append(levels[z], r.H(pkSeed, a, cat(levels[z-1][2*j], levels[z-1][2*j+1])))
		}
	}
	return levels
}

// mdFromIndices packs k a-bit indices (big-endian bit string, as base_2b reads them); the
// unused low bits of the last byte are set to pad.
func mdFromIndices(ind []uint32, a int, pad byte) []byte {
	md := make([]byte, (len(ind)*a+7)/8)
	bit := 0
	for _, v := range ind {
		for b := a - 1; b >= 0; b-- {
			if v>>uint(b)&1 == 1 {
				md[bit/8] |= 0x80 >> uint(bit%8)
			}
			bit++
		}
	}
	for ; bit < 8*len(md); bit++ {
		if pad != 0 {
			md[bit/8] |= 0x80 >> uint(bit%8)
		}
	}
	return md
}

// VerifH_slh_fors: Algorithms 14-17. ADRS (all 32 bytes), SK.seed, PK.seed symbolic.
//
//	mode 0: reduced (a, k) = (3, 2) (thorough: also (2, 3), (4, 2)), n = 16: fors_skGen for a symbolic
//	        index; fors_node(i, z) for every node of the k trees vs the recursive and the bottom-up
//	        reference; fors_sign / fors_pkFromSig for EVERY index vector (case split, 2^(ka) paths).
//	mode 1: real shapes (a, k) = (6, 33) [128f] (thorough: also (8, 33) [192f]) with two
//	        concrete index vectors: roots of all k trees, fors_sign, fors_pkFromSig.
//	mode 2: reduced (a, k) = (2, 2): md SYMBOLIC (fors_pkFromSig forks on the index bits; the index
//	        arithmetic is decided by the solver).
func VerifH_slh_fors() {
	mode := verifrt.Choice("mode", 3)
	var shape paramsOpts
	switch mode {
	case 0:
		sh := []paramsOpts{smallShape(2, 2, 3, 2)}
		if verifrt.Thorough() {
			sh = append(sh, smallShape(2, 2, 2, 3), smallShape(2, 2, 4, 2))
		}
		shape = sh[verifrt.Choice("shape", len(sh))]
	case 1:
		sh := []paramsOpts{param128f}
		if verifrt.Thorough() {
			sh = append(sh, param192f) // 256f (a=9, k=35) exceeds the engine's per-path instruction budget
		}
		shape = sh[verifrt.Choice("shape", len(sh))]
	case 2:
		shape = smallShape(2, 2, 2, 2)
	}
	p := newParams(shape, ufHashes())
	r := newRP(shape)
	n, a, k := r.n, r.a, r.k
	pkSeed, skSeed := verifrt.Bytes("pkseed", n), verifrt.Bytes("skseed", n)
	ab := verifrt.Bytes("adrs", 32)
	levels := r.forsLevels(skSeed, pkSeed, refAdrs(ab))

	part := verifrt.Choice("part", 2)
	if part == 0 {
		if mode == 2 {
			verifrt.Assume(false)
		}
		// Algorithm 14
		sidx := verifrt.Uint32("skidx")
		ia := implAdrs(ab)
		verifrt.AssertEq(p.forsSkGen(skSeed, pkSeed, ia, sidx), r.forsSkGen(skSeed, pkSeed, refAdrs(ab), sidx), "fors_skGen == Algorithm 14 (FORS_PRF, key pair kept, height 0, tree index = idx)")
		verifrt.AssertEq(ia[:], ab, "fors_skGen leaves the caller's ADRS alone")
		// Algorithm 15: mode 0 every node; mode 1 the root and one node per level of every 8th tree
		for z := 0; z <= a; z++ {
			for j := 0; j < k<<uint(a-z); j++ {
				if mode == 1 && !((j>>uint(a-z))%8 == 0 && (z == a || j%(1<<uint(a-z)) == (1<<uint(a-z))-1)) {
					continue
				}
				got := p.forsNode(skSeed, uint32(j), uint32(z), pkSeed, implAdrs(ab))
				verifrt.AssertEq(got, r.forsNode(skSeed, uint32(j), z, pkSeed, refAdrs(ab)), "fors_node(i,z) == Algorithm 15")
				verifrt.AssertEq(got, levels[z][j], "fors_node(i,z) == bottom-up tree")
			}
		}
		verifrt.Reach("nodes")
		return
	}
	// Algorithms 16, 17
	var md []byte
	ind := make([]uint32, k)
	switch mode {
	case 0:
		for i := range ind {
			ind[i] = uint32(verifrt.Choice([]string{"ind0", "ind1", "ind2"}[i], 1<<uint(a)))
		}
		md = mdFromIndices(ind, a, byte(verifrt.Choice("pad", 2)))
	case 1:
		pat := verifrt.Choice("indpat", 2)
		for i := range ind {
			ind[i] = uint32(i*37+11) % (1 << uint(a))
			if pat == 1 {
				ind[i] = (1<<uint(a) - 1) - uint32(i%3)
			}
		}
		md = mdFromIndices(ind, a, 1)
	case 2:
		md = verifrt.Bytes("md", (k*a+7)/8)
		ind = specBase2b(md, a, k)
	}
	sig := p.forsSign(md, skSeed, pkSeed, implAdrs(ab))
	verifrt.Assert(len(sig) == k*(a+1)*n, "SIG_FORS has k (a+1) n bytes")
	verifrt.AssertEq(sig, r.forsSign(md, skSeed, pkSeed, refAdrs(ab)), "fors_sign == Algorithm 16")
	var roots []byte
	for i := 0; i < k; i++ {
		off := i * (a + 1) * n
		verifrt.AssertEq(sig[off:off+n], r.forsSkGen(skSeed, pkSeed, refAdrs(ab), uint32(i<<uint(a))+ind[i]), "SIG_FORS element i starts with the secret value of leaf i 2^a + indices[i]")
		for j := 0; j < a; j++ {
			sib := r.forsNode(skSeed, uint32(i<<uint(a-j))+(ind[i]>>uint(j)^1), j, pkSeed, refAdrs(ab))
			verifrt.AssertEq(sig[off+(1+j)*n:off+(2+j)*n], sib, "AUTH[j] of tree i is node i 2^(a-j) + (indices[i] >> j xor 1) at height j, bottom-up")
		}
		roots = append(roots, levels[a][i]...)
	}
	var pa rADRS = refAdrs(ab)
	kp := pa.getKeyPairAddress()
	pa.setTypeAndClear(rFORS_ROOTS)
	pa.setKeyPairAddress(kp)
	pkFors := r.T(pkSeed, pa, roots)
	got := p.forsPkFromSig(sig, md, pkSeed, implAdrs(ab))
	verifrt.AssertEq(got, r.forsPkFromSig(sig, md, pkSeed, refAdrs(ab)), "fors_pkFromSig(genuine) == Algorithm 17")
	verifrt.AssertEq(got, pkFors, "fors_pkFromSig(fors_sign(md), md) == T_k(FORS_ROOTS ADRS, the k tree roots)")
	asig := verifrt.Bytes("asig", len(sig))
	verifrt.AssertEq(p.forsPkFromSig(asig, md, pkSeed, implAdrs(ab)), r.forsPkFromSig(asig, md, pkSeed, refAdrs(ab)), "fors_pkFromSig(arbitrary sig) == Algorithm 17")
	verifrt.Reach("sign")
}

// ---------------------------------------------------------------------------------------
// slh_sign_internal / slh_verify_internal (Algorithms 19, 20) and the external API on top

// alterable elements of a signature R || SIG_FORS || SIG_HT, as n-byte element numbers
func (r *rP) sigElements() int { return 1 + r.k*(1+r.a) + r.h + r.d*r.len }

func signverifyBody(mode int) {
	verifrt.NativeSkip("WOTS+ is summarised")
	idealised = mode == 3
	hmsgFix.alt = nil
	var shape paramsOpts
	var digest []byte
	switch mode {
	case 0, 2, 3:
		// reduced shape h'=2, d=2, a=2, k=2 (m = 3): md = 4 bits, idx_tree = 2 bits, idx_leaf = 2 bits.
		// Every (md, idx_tree, idx_leaf) by case split; the digest bits the standard discards
		// (low nibble of byte 0, high 6 bits of bytes 1 and 2) are set to non-zero garbage.
		shape = smallShape(2, 2, 2, 2)
		if mode == 0 {
			digest = []byte{byte(verifrt.Choice("md", 16))<<4 | 0x9, 0xa4 | byte(verifrt.Choice("it", 4)), 0x5c | byte(verifrt.Choice("il", 4))}
		} else {
			digest = []byte{0x69, 0xa6, 0x5d}
		}
	case 1:
		sh := []paramsOpts{param128f}
		if verifrt.Thorough() {
			sh = append(sh, param192f) // 256f exceeds the engine's per-path instruction budget
		}
		shape = sh[verifrt.Choice("shape", len(sh))]
		digest = make([]byte, shape.m)
		pat := verifrt.Choice("digestpat", 2)
		for i := range digest {
			digest[i] = byte(i*73 + 41)
			if pat == 1 {
				digest[i] = 0xff
			}
		}
	}
	p := newParams(shape, ufHashes())
	r := newRP(shape)
	r.absWots = true
	summarizeWots()
	n := r.n
	verifrt.Assert(int(p.m) == r.m && len(digest) == r.m, "m = ceil(ka/8) + ceil((h-h')/8) + ceil(h'/8)")
	skSeed, skPrf, pkSeed := verifrt.Bytes("skseed", n), verifrt.Bytes("skprf", n), verifrt.Bytes("pkseed", n)
	sk, pk := p.slhKeygenInternal(skSeed, skPrf, pkSeed)
	pkRoot := r.keygenRoot(skSeed, pkSeed)
	verifrt.AssertEq(pk.pkRoot, pkRoot, "PK.root == Algorithm 18")
	verifrt.AssertEq(sk.pkRoot, pkRoot, "SK carries PK.root")
	verifrt.AssertEq(cat(sk.skSeed, sk.skPrf, sk.pkSeed), cat(skSeed, skPrf, pkSeed), "SK = (SK.seed, SK.prf, PK.seed, PK.root)")

	// the message as slh_sign_internal sees it, and opt_rand
	var M, addrnd, sig []byte
	api := 0
	if mode == 2 {
		api = 1 + verifrt.Choice("api", 2)
	}
	msg := verifrt.Bytes("M", 3)
	ctx := verifrt.Bytes("ctx", 2)
	switch api {
	case 0: // slh_sign_internal with an arbitrary addrnd (hedged variant)
		M, addrnd = msg, verifrt.Bytes("addrnd", n)
	case 1: // SignDeterministic: addrnd = PK.seed, M' = 0 || |ctx| || ctx || M
		M, addrnd = cat([]byte{0, byte(len(ctx))}, ctx, msg), pkSeed
	case 2: // Sign: addrnd = one fresh n-byte draw
		M = cat([]byte{0, byte(len(ctx))}, ctx, msg)
	}
	d0 := verifrt.Draws()
	if api == 2 {
		// the draw is made inside Sign; its bytes are what R must be computed from
		hmsgFix.anyR = true
	} else {
		hmsgFix.anyR = false
		hmsgFix.r = ufPRFmsg(n, skPrf, addrnd, M)
	}
	hmsgFix.on, hmsgFix.pkSeed, hmsgFix.pkRoot, hmsgFix.msg, hmsgFix.digest = true, pkSeed, pkRoot, M, digest
	var err error
	switch api {
	case 0:
		sig = sk.signInternal(M, addrnd)
	case 1:
		sig, err = sk.SignDeterministic(msg, ctx)
	case 2:
		sig, err = sk.Sign(msg, ctx)
		verifrt.Assert(verifrt.Draws() == d0+1, "Sign draws once")
		addrnd = verifrt.DrawBytes(d0)
	}
	verifrt.Assert(err == nil, "signing succeeds")
	verifrt.Assert(len(sig) == r.sigElements()*n, "signature has (1 + k(1+a) + h + d len) n bytes")
	verifrt.AssertEq(sig, r.signInternal(M, skSeed, skPrf, pkSeed, pkRoot, addrnd), "slh_sign_internal == Algorithm 19")
	// the three parts, spelled out
	md, idxTree, idxLeaf := r.splitDigest(digest)
	var fa rADRS
	fa.setTreeAddress(idxTree)
	fa.setTypeAndClear(rFORS_TREE)
	fa.setKeyPairAddress(idxLeaf)
	forsEnd := (1 + r.k*(1+r.a)) * n
	verifrt.AssertEq(sig[:n], ufPRFmsg(n, skPrf, addrnd, M), "R = PRF_msg(SK.prf, opt_rand, M)")
	verifrt.AssertEq(sig[n:forsEnd], r.forsSign(md, skSeed, pkSeed, fa), "SIG_FORS = fors_sign(md) under ADRS(layer 0, tree idx_tree, FORS_TREE, key pair idx_leaf)")
	pkFors := r.forsPkFromSig(sig[n:forsEnd], md, pkSeed, fa)
	verifrt.AssertEq(sig[forsEnd:], r.htSign(pkFors, skSeed, pkSeed, idxTree, idxLeaf), "SIG_HT = ht_sign(PK_FORS, idx_tree, idx_leaf)")
	root, ok := r.verifyRoot(M, sig, pkSeed, pkRoot)
	verifrt.Assert(ok, "reference accepts the length")
	verifrt.AssertEq(root, pkRoot, "Algorithm 20 on the signature recomputes PK.root")
	if api == 0 {
		verifrt.Assert(pk.verifyInternal(M, sig) == nil, "slh_verify_internal(slh_sign_internal(M)) accepts")
	} else {
		verifrt.Assert(pk.Verify(msg, sig, ctx) == nil, "Verify(Sign(M, ctx), ctx) accepts")
		verifrt.Reach("api")
		return
	}
	if mode != 3 {
		// wrong lengths
		hmsgFix.anyR = true
		for _, dl := range [...]int{-len(sig), -n, -1, 1, n} {
			var wrong []byte
			if dl < 0 {
				wrong = sig[:len(sig)+dl]
			} else {
				wrong = cat(sig, make([]byte, dl))
			}
			verifrt.Assert(pk.verifyInternal(M, wrong) != nil, "a signature of the wrong length is rejected")
			_, ok := r.verifyRoot(M, wrong, pkSeed, pkRoot)
			verifrt.Assert(!ok, "reference rejects the length")
		}
		if mode == 1 || int(idxTree)*4+int(idxLeaf) != int(digest[0]>>4) {
			// the two forking checks below run for 16 of the 256 digests of the reduced shape
			verifrt.Reach("signverify")
			return
		}
		// an arbitrary signature of the right length (H_msg(R', ..) fixed to the same digest)
		asig := verifrt.Bytes("asig", len(sig))
		aroot, _ := r.verifyRoot(M, asig, pkSeed, pkRoot)
		verifrt.Assert((pk.verifyInternal(M, asig) == nil) == verifrt.EqBytes(aroot, pkRoot), "slh_verify_internal(arbitrary SIG) accepts iff the Algorithm 20 root == PK.root")
		// a different PK.root with the same PK.seed
		oroot := verifrt.Bytes("otherroot", n)
		opk := &PublicKey{pkSeed: pkSeed, pkRoot: oroot, p: p}
		hmsgFix.pkRoot = oroot
		verifrt.Assert((opk.verifyInternal(M, sig) == nil) == verifrt.EqBytes(oroot, pkRoot), "verification under a different PK.root (same digest) accepts iff the roots are equal")
		verifrt.Reach("signverify")
		return
	}
	// mode 3: one altered n-byte element. Element 0 is R: it enters only through H_msg, whose
	// value on the altered input is taken to be another digest (one used bit of idx_leaf / idx_tree / md flipped; thorough:
	// each of the 8 used bits flipped, and two multi-bit changes); the same case stands for an altered message or PK.root
	// in H_msg's input. Elements >= 1: SIG_FORS and SIG_HT (quick: all of SIG_FORS; layer 0: first
	// WOTS+ chunk, last authentication node; layer 1: last WOTS+ chunk, first authentication node; thorough: all).
	var els []int
	for e := 0; e < r.sigElements(); e++ {
		q := e - 1 - r.k*(1+r.a)
		xl := r.hp + r.len
		if verifrt.Thorough() || q < 0 || q == 0 || q == xl-1 || q == xl+r.len-1 || q == xl+r.len {
			els = append(els, e)
		}
	}
	el := els[verifrt.Choice("element", len(els))]
	delta := verifrt.Bytes("delta", n)
	verifrt.Assume(!verifrt.EqBytes(delta, make([]byte, n)))
	bad := append([]byte{}, sig...)
	for i := 0; i < n; i++ {
		bad[el*n+i] ^= delta[i]
	}
	if el == 0 {
		hmsgFix.anyR = true
		used := func(d []byte) int { return int(d[0]>>4)<<4 | int(d[1]&3)<<2 | int(d[2]&3) }
		var x int
		if verifrt.Thorough() {
			x = [...]int{1, 2, 4, 8, 16, 32, 64, 128, 0x3c, 0xff}[verifrt.Choice("digestxor", 10)]
		} else {
			x = 1 << uint([...]int{0, 2, 5}[verifrt.Choice("digestbit", 3)])
		}
		u := used(digest) ^ x
		hmsgFix.alt = []byte{byte(u>>4)<<4 | 0x3, 0x58 | byte(u>>2)&3, 0xa4 | byte(u)&3}
	}
	res := pk.verifyInternal(M, bad)
	broot, _ := r.verifyRoot(M, bad, pkSeed, pkRoot)
	verifrt.Assert((res == nil) == verifrt.EqBytes(broot, pkRoot), "slh_verify_internal(altered SIG) accepts iff the Algorithm 20 root == PK.root")
	verifrt.Assert(res != nil, "a signature with one altered n-byte element of SIG_FORS / SIG_HT is rejected (under I1, I2)")
	hmsgFix.alt = nil
	verifrt.Assert(pk.verifyInternal(M, sig) == nil, "the unaltered signature is accepted (assumptions are consistent)")
	verifrt.Reach("altered")
}

// VerifH_slh_signverify:
//
//	mode 0: reduced shape (h', d, a, k) = (2, 2, 2, 2), n = 16, every (md, idx_tree, idx_leaf);
//	        slh_sign_internal with arbitrary addrnd == Algorithm 19 (R, SIG_FORS, SIG_HT and their
//	        ADRS set-up spelled out), slh_verify_internal accepts it, wrong lengths are rejected,
//	        arbitrary signatures / another PK.root are accepted iff the reference root matches.
//	mode 1: real shape 128f (thorough: 192f too), two concrete digests.
func VerifH_slh_signverify() { signverifyBody(verifrt.Choice("mode", 2)) }

// VerifH_slh_signverify_api: Sign (one fresh draw as opt_rand) and SignDeterministic (PK.seed as
// opt_rand) on M' = 0 || |ctx| || ctx || M produce Algorithm 19's signature, Verify accepts it.
func VerifH_slh_signverify_api() { signverifyBody(2) }

// VerifH_slh_signverify_altered: reduced shape, one altered element, idealised hashes.
func VerifH_slh_signverify_altered() { signverifyBody(3) }
