package slhdsa

import "github.com/tink-crypto/tink-go/v2/internal/verifrt"

// Exported shim for the dispatch-table harnesses of the OUTER package signature/slhdsa,
// which cannot name the unexported type params.

// verifParamsName maps a parameter-set pointer to the name of the exported variable it is
// identical to (pointer identity, not structural equality: SHA2 and SHAKE sets share all
// numbers).
func verifParamsName(p *params) string {
	switch p {
	case nil:
		return "<nil>"
	case SLH_DSA_SHA2_128s:
		return "SLH_DSA_SHA2_128s"
	case SLH_DSA_SHAKE_128s:
		return "SLH_DSA_SHAKE_128s"
	case SLH_DSA_SHA2_128f:
		return "SLH_DSA_SHA2_128f"
	case SLH_DSA_SHAKE_128f:
		return "SLH_DSA_SHAKE_128f"
	case SLH_DSA_SHA2_192s:
		return "SLH_DSA_SHA2_192s"
	case SLH_DSA_SHAKE_192s:
		return "SLH_DSA_SHAKE_192s"
	case SLH_DSA_SHA2_192f:
		return "SLH_DSA_SHA2_192f"
	case SLH_DSA_SHAKE_192f:
		return "SLH_DSA_SHAKE_192f"
	case SLH_DSA_SHA2_256s:
		return "SLH_DSA_SHA2_256s"
	case SLH_DSA_SHAKE_256s:
		return "SLH_DSA_SHAKE_256s"
	case SLH_DSA_SHA2_256f:
		return "SLH_DSA_SHA2_256f"
	case SLH_DSA_SHAKE_256f:
		return "SLH_DSA_SHAKE_256f"
	}
	return "<other>"
}

// VerifSecretKeyParamsName / VerifPublicKeyParamsName: the parameter set a decoded key is bound to.
func VerifSecretKeyParamsName(sk *SecretKey) string {
	if sk == nil {
		return "<nil key>"
	}
	return verifParamsName(sk.p)
}

func VerifPublicKeyParamsName(pk *PublicKey) string {
	if pk == nil {
		return "<nil key>"
	}
	return verifParamsName(pk.p)
}

// VerifSecretKeyN / VerifPublicKeyN: the n of the bound parameter set.
func VerifSecretKeyN(sk *SecretKey) int { return int(sk.p.n) }
func VerifPublicKeyN(pk *PublicKey) int { return int(pk.p.n) }

// VerifDispatchRecord is one call observed by the recording summaries.
type VerifDispatchRecord struct {
	Call string // "KeyGen:<set>", "DecodeSecretKey:<set>", "DecodePublicKey:<set>", "signInternal:<set>", "verifyInternal:<set>"
	Arg  []byte // the encoded key / message M' handed over
	Arg2 []byte // signature (verifyInternal) / addrnd (signInternal)
}

// VerifStubSignature is what the signInternal summary returns.
var VerifStubSignature = []byte{0x53, 0x49, 0x47}

// VerifInstallDispatchLog installs recording summaries (engine only) for the five functions
// of this package through which the Tink key layer selects a parameter set.
//   - KeyGen: records the receiver's name, returns a structurally valid key with symbolic
//     n-byte seeds and root bound to the receiver (the real one computes an XMSS tree);
//   - DecodeSecretKey / DecodePublicKey: record and then run the real method (calls nested
//     in a summary body are not summarised again);
//   - signInternal / verifyInternal: record the key's parameter set, M' and the signature.
//     verifyInternal accepts exactly VerifStubSignature.
func VerifInstallDispatchLog(log *[]VerifDispatchRecord) {
	verifrt.Summarize("slhdsa.params).KeyGen", func(pp *params) (*SecretKey, *PublicKey) {
		*log = append(*log, VerifDispatchRecord{Call: "KeyGen:" + verifParamsName(pp)})
		n := int(pp.n)
		skSeed, skPrf := verifrt.Bytes("kg_skseed", n), verifrt.Bytes("kg_skprf", n)
		pkSeed, pkRoot := verifrt.Bytes("kg_pkseed", n), verifrt.Bytes("kg_pkroot", n)
		return &SecretKey{skSeed, skPrf, pkSeed, pkRoot, pp}, &PublicKey{pkSeed, pkRoot, pp}
	})
	verifrt.Summarize("slhdsa.params).DecodeSecretKey", func(pp *params, skEnc []byte) (*SecretKey, error) {
		*log = append(*log, VerifDispatchRecord{Call: "DecodeSecretKey:" + verifParamsName(pp), Arg: skEnc})
		return pp.DecodeSecretKey(skEnc)
	})
	verifrt.Summarize("slhdsa.params).DecodePublicKey", func(pp *params, pkEnc []byte) (*PublicKey, error) {
		*log = append(*log, VerifDispatchRecord{Call: "DecodePublicKey:" + verifParamsName(pp), Arg: pkEnc})
		return pp.DecodePublicKey(pkEnc)
	})
	verifrt.Summarize("slhdsa.SecretKey).signInternal", func(sk *SecretKey, msg []byte, addrnd []byte) []byte {
		*log = append(*log, VerifDispatchRecord{Call: "signInternal:" + verifParamsName(sk.p), Arg: msg, Arg2: addrnd})
		return VerifStubSignature
	})
	verifrt.Summarize("slhdsa.PublicKey).verifyInternal", func(pk *PublicKey, msg []byte, sig []byte) error {
		*log = append(*log, VerifDispatchRecord{Call: "verifyInternal:" + verifParamsName(pk.p), Arg: msg, Arg2: sig})
		if len(sig) == len(VerifStubSignature) && verifrt.EqBytes(sig, VerifStubSignature) {
			return nil
		}
		return errVerifStub
	})
}

type verifStubErr struct{}

func (verifStubErr) Error() string { return "stub: invalid signature" }

var errVerifStub error = verifStubErr{}
