package slhdsa

import "github.com/tink-crypto/tink-go/v2/internal/verifrt"

// ---- FIPS 205 reference functions

// specToInt: Algorithm 2 (big-endian).
func specToInt(x []byte) uint64 {
	var t uint64
	for _, b := range x {
		t = t*256 + uint64(b)
	}
	return t
}

// specBit returns bit i (0 = most significant bit of x[0]) of the byte string.
func specBit(x []byte, i int) uint32 { return uint32(x[i/8]>>(7-uint(i%8))) & 1 }

// specBase2b: Algorithm 4 read literally: digit j is the b-bit big-endian integer made of
// bits j*b .. (j+1)*b-1 of the input bit string.
func specBase2b(x []byte, b, outLen int) []uint32 {
	out := make([]uint32, outLen)
	for j := 0; j < outLen; j++ {
		var d uint32
		for k := 0; k < b; k++ {
			d = d<<1 | specBit(x, j*b+k)
		}
		out[j] = d
	}
	return out
}

var shapes = [...]paramsOpts{param128s, param128f, param192s, param192f, param256s, param256f}

func pickShape() paramsOpts { return shapes[verifrt.Choice("shape", len(shapes))] }

func VerifH_slh_toInt_toByte() {
	n := verifrt.Choice("n", 9)
	x := verifrt.Bytes("x", n+verifrt.Choice("extra", 2))
	verifrt.Assert(toInt(x, uint32(n)) == specToInt(x[:n]), "toInt == big-endian integer of the first n bytes")
	v := verifrt.Uint32("v")
	m := verifrt.Choice("m", 6)
	b := toByte(v, uint32(m))
	verifrt.Assert(len(b) == m, "toByte length")
	// Algorithm 3: S[n-1-i] = total mod 256, total >>= 8
	tot := v
	for i := 0; i < m; i++ {
		verifrt.Assert(b[m-1-i] == byte(tot), "toByte == big-endian low bytes")
		tot >>= 8
	}
	verifrt.Reach("end")
}

// base2b for every (b, outLen) pair the twelve parameter sets use.
func VerifH_slh_base2b() {
	p := pickShape()
	type bo struct{ b, o int }
	lenOne := int((8*p.n + p.lgw - 1) / p.lgw)
	cases := [...]bo{{int(p.lgw), lenOne}, {int(p.lgw), 3}, {int(p.a), int(p.k)}}
	c := cases[verifrt.Choice("case", 3)]
	inLen := (c.o*c.b + 7) / 8
	x := verifrt.Bytes("x", inLen)
	got := base2b(x, uint32(c.b), uint32(c.o))
	want := specBase2b(x, c.b, c.o)
	verifrt.Assert(len(got) == c.o, "base2b output length")
	for i := range want {
		verifrt.Assert(got[i] == want[i], "base2b digit == b consecutive bits (Algorithm 4)")
	}
	verifrt.Reach("end")
}

func stubHashes(onF func(adrs *address, m []byte), onPrf func(adrs *address), digest []byte) hashParamsOpts {
	return hashParamsOpts{
		pHMsg:   func(r, pkSeed, pkRoot, msg []byte, m uint32) []byte { return digest },
		pPrf:    func(pkSeed, skSeed []byte, adrs *address, n uint32) []byte { onPrf(adrs); return make([]byte, n) },
		pPrfMsg: func(skPrf, optRand, M []byte, n uint32) []byte { return make([]byte, n) },
		pF:      func(pkSeed []byte, adrs *address, M1 []byte, n uint32) []byte { onF(adrs, M1); return make([]byte, n) },
		pH:      func(pkSeed []byte, adrs *address, M2 []byte, n uint32) []byte { return make([]byte, n) },
		pTl:     func(pkSeed []byte, adrs *address, Ml []byte, n uint32) []byte { return make([]byte, n) },
	}
}

// derived WOTS+ lengths vs FIPS 205 Table 2 / eq. 5.1-5.4
func VerifH_slh_params() {
	p := newParams(pickShape(), hashParamsOpts{})
	verifrt.Assert(p.w == 16 && p.len1 == 2*p.n && p.len2 == 3 && p.len == 2*p.n+3, "w=16, len1=2n, len2=3, len=2n+3")
	verifrt.Assert(p.h == p.d*p.hp, "h = d * h'")
	verifrt.Assert(p.m == (p.k*p.a+7)/8+(p.h-p.hp+7)/8+(p.hp+7)/8, "m = ceil(k a/8) + ceil((h-h')/8) + ceil(h'/8)")
	verifrt.Assert(p.PublicKeyLength() == int(2*p.n) && p.SecretKeyLength() == int(4*p.n), "key lengths 2n / 4n")
	verifrt.Reach("end")
}

// wotsChecksum vs Algorithm 7 lines 1-10.
func VerifH_slh_wotsChecksum() {
	p := newParams(pickShape(), hashParamsOpts{})
	msg := verifrt.Bytes("msg", int(p.n))
	got := p.wotsChecksum(msg)
	verifrt.Assert(len(got) == int(p.len), "len1 + len2 digits")
	digits := specBase2b(msg, 4, int(p.len1))
	csum := uint32(0)
	for i, d := range digits {
		verifrt.Assert(got[i] == d, "message digits")
		csum += 15 - d
	}
	// csum << ((8 - ((len2*lgw) mod 8)) mod 8); toByte(csum, ceil(len2*lgw/8)); base_2b(.., lgw, len2)
	csum <<= 4
	cb := []byte{byte(csum >> 8), byte(csum)}
	cd := specBase2b(cb, 4, 3)
	for i := 0; i < 3; i++ {
		verifrt.Assert(got[int(p.len1)+i] == cd[i], "checksum digits (Algorithm 7)")
	}
	verifrt.Reach("end")
}

// ADRS layout (FIPS 205 Table 1 / Figure 2) and the compressed form (Table 3).
func VerifH_slh_address() {
	a := newAddress()
	copy(a[:], verifrt.Bytes("init", 32))
	before := *a
	l, t, y, kp, x, z := verifrt.Uint32("layer"), verifrt.Uint64("tree"), verifrt.Choice("type", 7), verifrt.Uint32("kp"), verifrt.Uint32("w2"), verifrt.Uint32("w3")
	a.setLayerAddress(l)
	a.setTreeAddress(t)
	a.setTypeAndClear(addressType(y))
	be32 := func(v uint32) []byte { return []byte{byte(v >> 24), byte(v >> 16), byte(v >> 8), byte(v)} }
	verifrt.AssertEq(a[0:4], be32(l), "layer address in bytes 0..3")
	verifrt.AssertEq(a[4:8], be32(0), "tree address high word zero (bytes 4..7)")
	verifrt.AssertEq(a[8:16], append(be32(uint32(t>>32)), be32(uint32(t))...), "tree address in bytes 8..15")
	verifrt.AssertEq(a[16:20], be32(uint32(y)), "type in bytes 16..19")
	verifrt.AssertEq(a[20:32], make([]byte, 12), "setTypeAndClear zeroes bytes 20..31")
	a.setKeyPairAddress(kp)
	a.setChainAddress(x)
	a.setHashAddress(z)
	verifrt.AssertEq(a[20:24], be32(kp), "key pair address in bytes 20..23")
	verifrt.AssertEq(a[24:28], be32(x), "chain address / tree height in bytes 24..27")
	verifrt.AssertEq(a[28:32], be32(z), "hash address / tree index in bytes 28..31")
	verifrt.Assert(a.keyPairAddress() == kp && a.treeIndex() == z, "getters")
	a.setTreeHeight(z)
	a.setTreeIndex(x)
	verifrt.AssertEq(a[24:28], be32(z), "tree height in bytes 24..27")
	verifrt.AssertEq(a[28:32], be32(x), "tree index in bytes 28..31")
	c := a.compress()
	want := append(append([]byte{a[3]}, a[8:16]...), a[19:32]...)
	verifrt.AssertEq(c, want, "compressed ADRS = byte 3 || bytes 8..15 || byte 19 || bytes 20..31 (22 bytes)")
	cp := a.copy()
	cp.setLayerAddress(l + 1)
	verifrt.Assert(a[3] == byte(l), "copy() is independent")
	_ = before
	verifrt.Reach("end")
}

type stop struct{}

// Digest split in verifyInternal for each of the six parameter shapes: the first F call of
// FORS must carry tree address = toInt(..) mod 2^(h-h'), key pair = toInt(..) mod 2^h',
// tree index = first a-bit digit of md, and the first secret value of the signature.
func VerifH_slh_verify_split() {
	shape := pickShape()
	digest := verifrt.Bytes("digest", int(shape.m))
	var gotAdrs address
	var gotM []byte
	called := false
	hp := stubHashes(func(adrs *address, m []byte) {
		if !called {
			called = true
			gotAdrs = *adrs
			gotM = m
			panic(stop{})
		}
	}, func(*address) {}, digest)
	p := newParams(shape, hp)
	pk := &PublicKey{pkSeed: make([]byte, p.n), pkRoot: make([]byte, p.n), p: p}
	forsIdx := 1 + p.k*(1+p.a)
	sigLen := int((forsIdx + p.h + p.d*p.len) * p.n)
	sig := make([]byte, sigLen)
	copy(sig[p.n:2*p.n], verifrt.Bytes("sk0", int(p.n)))
	stopped := verifrt.ExpectPanic(func() { pk.verifyInternal([]byte{1, 2, 3}, sig) })
	verifrt.Assert(stopped && called, "verifyInternal reaches FORS with a correctly sized signature (no slicing panic)")
	r, s, t := int((p.k*p.a+7)/8), int((p.h-p.hp+7)/8), int((p.hp+7)/8)
	idxTree := specToInt(digest[r : r+s])
	if p.h-p.hp < 64 {
		idxTree %= uint64(1) << (p.h - p.hp)
	}
	idxLeaf := uint32(specToInt(digest[r+s:r+s+t]) % (uint64(1) << p.hp))
	ind0 := specBase2b(digest[:r], int(p.a), 1)[0]
	be32 := func(v uint32) []byte { return []byte{byte(v >> 24), byte(v >> 16), byte(v >> 8), byte(v)} }
	want := append(be32(0), be32(0)...)
	want = append(want, append(be32(uint32(idxTree>>32)), be32(uint32(idxTree))...)...)
	want = append(want, be32(uint32(addressFORSTree))...)
	want = append(want, be32(idxLeaf)...)
	want = append(want, be32(0)...)
	want = append(want, be32(ind0)...)
	verifrt.AssertEq(gotAdrs[:], want, "FORS address: layer 0, tree = idx_tree, type FORS_TREE, key pair = idx_leaf, height 0, index = first md digit")
	verifrt.AssertEq(gotM, sig[p.n:2*p.n], "first FORS secret value is signature bytes n..2n")
	verifrt.Reach("end")
}

// Same split on the signing side: first PRF address of forsSign.
func VerifH_slh_sign_split() {
	shape := pickShape()
	digest := verifrt.Bytes("digest", int(shape.m))
	var gotAdrs address
	called := false
	hp := stubHashes(func(*address, []byte) {}, func(adrs *address) {
		if !called {
			called = true
			gotAdrs = *adrs
			panic(stop{})
		}
	}, digest)
	p := newParams(shape, hp)
	sk := &SecretKey{skSeed: make([]byte, p.n), skPrf: make([]byte, p.n), pkSeed: make([]byte, p.n), pkRoot: make([]byte, p.n), p: p}
	stopped := verifrt.ExpectPanic(func() { sk.signInternal([]byte{1}, make([]byte, p.n)) })
	verifrt.Assert(stopped && called, "signInternal reaches FORS")
	r, s, t := int((p.k*p.a+7)/8), int((p.h-p.hp+7)/8), int((p.hp+7)/8)
	idxTree := specToInt(digest[r : r+s])
	if p.h-p.hp < 64 {
		idxTree %= uint64(1) << (p.h - p.hp)
	}
	idxLeaf := uint32(specToInt(digest[r+s:r+s+t]) % (uint64(1) << p.hp))
	ind0 := specBase2b(digest[:r], int(p.a), 1)[0]
	be32 := func(v uint32) []byte { return []byte{byte(v >> 24), byte(v >> 16), byte(v >> 8), byte(v)} }
	want := append(be32(0), be32(0)...)
	want = append(want, append(be32(uint32(idxTree>>32)), be32(uint32(idxTree))...)...)
	want = append(want, be32(uint32(addressFORSPrf))...)
	want = append(want, be32(idxLeaf)...)
	want = append(want, be32(0)...)
	want = append(want, be32(ind0)...)
	verifrt.AssertEq(gotAdrs[:], want, "FORS PRF address: tree = idx_tree, type FORS_PRF, key pair = idx_leaf, index = first md digit")
	verifrt.Reach("end")
}

// Lengths: any signature / key of the wrong length is rejected without a panic.
func VerifH_slh_lengths() {
	p := newParams(pickShape(), stubHashes(func(*address, []byte) {}, func(*address) {}, nil))
	pk := &PublicKey{pkSeed: make([]byte, p.n), pkRoot: make([]byte, p.n), p: p}
	forsIdx := 1 + p.k*(1+p.a)
	sigLen := int((forsIdx + p.h + p.d*p.len) * p.n)
	delta := [...]int{-sigLen, -int(p.n), -1, 1, int(p.n)}[verifrt.Choice("delta", 5)]
	err := pk.verifyInternal([]byte{1}, make([]byte, sigLen+delta))
	verifrt.Assert(err != nil, "signature of the wrong length rejected")
	kl := verifrt.Choice("kl", 140)
	_, e1 := p.DecodePublicKey(make([]byte, kl))
	_, e2 := p.DecodeSecretKey(make([]byte, kl))
	verifrt.Assert((e1 == nil) == (kl == int(2*p.n)) && (e2 == nil) == (kl == int(4*p.n)), "keys of the wrong length rejected")
	verifrt.Reach("end")
}

// ---- C20: randomized SLH-DSA signing hands one fresh n-byte draw to the internal signer;
// deterministic signing uses PK.seed; key generation draws three n-byte seeds.
func VerifH_c20_slh_sign() {
	verifrt.EngineOnly()
	p := newParams(pickShape(), stubHashes(func(*address, []byte) {}, func(*address) {}, nil))
	var gotRnd, gotMsg []byte
	verifrt.Summarize("slhdsa.SecretKey).signInternal", func(sk *SecretKey, msg []byte, addrnd []byte) []byte {
		gotRnd, gotMsg = addrnd, msg
		return []byte{1}
	})
	pkSeed := verifrt.Bytes("pkseed", int(p.n))
	sk := &SecretKey{skSeed: make([]byte, p.n), skPrf: make([]byte, p.n), pkSeed: pkSeed, pkRoot: make([]byte, p.n), p: p}
	m := verifrt.Bytes("m", verifrt.Choice("ml", 3))
	ctx := verifrt.Bytes("ctx", verifrt.Choice("cl", 3))
	d0 := verifrt.Draws()
	_, err := sk.Sign(m, ctx)
	verifrt.Assert(err == nil, "Sign succeeds")
	verifrt.Assert(verifrt.Draws() == d0+1, "exactly one draw per signature")
	draw := verifrt.DrawBytes(d0)
	verifrt.Assert(len(draw) == int(p.n), "the draw has n bytes")
	verifrt.AssertEq(gotRnd, draw, "the internal signer receives exactly the drawn bytes")
	verifrt.AssertEq(gotMsg, append(append([]byte{0, byte(len(ctx))}, ctx...), m...), "M' = 0 || len(ctx) || ctx || M")
	d1 := verifrt.Draws()
	sk.SignDeterministic(m, ctx)
	verifrt.Assert(verifrt.Draws() == d1, "deterministic signing draws nothing")
	verifrt.AssertEq(gotRnd, pkSeed, "deterministic signing uses PK.seed as the randomizer")
	verifrt.Reach("end")
}

func VerifH_c20_slh_keygen() {
	verifrt.EngineOnly()
	p := newParams(pickShape(), stubHashes(func(*address, []byte) {}, func(*address) {}, nil))
	var seeds [3][]byte
	verifrt.Summarize("slhdsa.params).slhKeygenInternal", func(pp *params, skSeed, skPrf, pkSeed []byte) (*SecretKey, *PublicKey) {
		seeds = [3][]byte{skSeed, skPrf, pkSeed}
		return nil, nil
	})
	d0 := verifrt.Draws()
	p.KeyGen()
	verifrt.Assert(verifrt.Draws() == d0+3, "three draws")
	for i := 0; i < 3; i++ {
		verifrt.Assert(len(verifrt.DrawBytes(d0+i)) == int(p.n), "each seed is a full n-byte draw")
		verifrt.AssertEq(seeds[i], verifrt.DrawBytes(d0+i), "SK.seed, SK.prf, PK.seed are three separate draws")
	}
	verifrt.Reach("end")
}

// External API framing (FIPS 205 Algorithms 22-24): contexts longer than 255 bytes are
// refused by Sign, SignDeterministic and Verify; otherwise M' = 0 || len(ctx) || ctx || M.
func VerifH_slh_context() {
	var sk *SecretKey
	var pk *PublicKey
	var gotSign, gotVerify []byte
	if verifrt.Symbolic() {
		p := newParams(pickShape(), stubHashes(func(*address, []byte) {}, func(*address) {}, nil))
		verifrt.Summarize("slhdsa.SecretKey).signInternal", func(sk *SecretKey, msg []byte, addrnd []byte) []byte {
			gotSign = msg
			return []byte{1}
		})
		verifrt.Summarize("slhdsa.PublicKey).verifyInternal", func(pk *PublicKey, msg []byte, sig []byte) error {
			gotVerify = msg
			return nil
		})
		sk = &SecretKey{skSeed: make([]byte, p.n), skPrf: make([]byte, p.n), pkSeed: make([]byte, p.n), pkRoot: make([]byte, p.n), p: p}
		pk = sk.PublicKey()
	} else {
		// native replay: a real key of the fastest parameter set
		p := SLH_DSA_SHAKE_128f
		sk, pk = p.slhKeygenInternal(make([]byte, p.n), make([]byte, p.n), make([]byte, p.n))
	}
	cl := [...]int{0, 1, 2, 254, 255, 256, 257, 511, 512}[verifrt.Choice("cl", 9)]
	ctx := make([]byte, cl)
	if cl > 0 {
		ctx[0] = verifrt.Byte("c0")
		ctx[cl-1] = verifrt.Byte("cN")
	}
	m := verifrt.Bytes("m", verifrt.Choice("ml", 3))
	want := append(append([]byte{0, byte(cl)}, ctx...), m...)
	_, e1 := sk.Sign(m, ctx)
	if e1 == nil && verifrt.Symbolic() {
		verifrt.AssertEq(gotSign, want, "Sign: M' = 0 || len(ctx) || ctx || M")
	}
	_, e2 := sk.SignDeterministic(m, ctx)
	// the candidate signature is one that is genuinely valid for the M' that a length byte
	// wrapping modulo 256 would produce (under the engine the internal verifier is a stub)
	sig := []byte{1}
	if !verifrt.Symbolic() {
		r := cl % 256
		sig, _ = sk.SignDeterministic(append(append([]byte{}, ctx[r:]...), m...), ctx[:r])
	}
	e3 := pk.Verify(m, sig, ctx)
	if e3 == nil && verifrt.Symbolic() {
		verifrt.AssertEq(gotVerify, want, "Verify: M' = 0 || len(ctx) || ctx || M")
	}
	verifrt.Assert((e1 == nil) == (cl <= 255) && (e2 == nil) == (cl <= 255) && (e3 == nil) == (cl <= 255), "contexts longer than 255 bytes are refused by Sign, SignDeterministic and Verify")
	verifrt.Reach("end")
}
