package slhdsa

import (
	"crypto/hmac"
	"crypto/sha256"
	"crypto/sha512"
	"hash"

	"github.com/tink-crypto/tink-go/v2/internal/verifrt"
	"golang.org/x/crypto/sha3"
)

// The twelve exported parameter-set variables against FIPS 205 Table 2 (numbers) and
// section 11 (which hash instantiation belongs to which set), both written out here.

type namedSetRow struct {
	p                         *params
	name                      string
	n, h, d, hp, a, k, lgw, m uint32
	family                    int // 0: SHAKE (11.1), 1: SHA2 category 1 (11.2.1), 2: SHA2 categories 3 and 5 (11.2.2)
	pkBytes, sigBytes         int // Table 2, last columns
}

func namedSets() [12]namedSetRow {
	return [12]namedSetRow{
		{SLH_DSA_SHA2_128s, "SLH-DSA-SHA2-128s", 16, 63, 7, 9, 12, 14, 4, 30, 1, 32, 7856},
		{SLH_DSA_SHAKE_128s, "SLH-DSA-SHAKE-128s", 16, 63, 7, 9, 12, 14, 4, 30, 0, 32, 7856},
		{SLH_DSA_SHA2_128f, "SLH-DSA-SHA2-128f", 16, 66, 22, 3, 6, 33, 4, 34, 1, 32, 17088},
		{SLH_DSA_SHAKE_128f, "SLH-DSA-SHAKE-128f", 16, 66, 22, 3, 6, 33, 4, 34, 0, 32, 17088},
		{SLH_DSA_SHA2_192s, "SLH-DSA-SHA2-192s", 24, 63, 7, 9, 14, 17, 4, 39, 2, 48, 16224},
		{SLH_DSA_SHAKE_192s, "SLH-DSA-SHAKE-192s", 24, 63, 7, 9, 14, 17, 4, 39, 0, 48, 16224},
		{SLH_DSA_SHA2_192f, "SLH-DSA-SHA2-192f", 24, 66, 22, 3, 8, 33, 4, 42, 2, 48, 35664},
		{SLH_DSA_SHAKE_192f, "SLH-DSA-SHAKE-192f", 24, 66, 22, 3, 8, 33, 4, 42, 0, 48, 35664},
		{SLH_DSA_SHA2_256s, "SLH-DSA-SHA2-256s", 32, 64, 8, 8, 14, 22, 4, 47, 2, 64, 29792},
		{SLH_DSA_SHAKE_256s, "SLH-DSA-SHAKE-256s", 32, 64, 8, 8, 14, 22, 4, 47, 0, 64, 29792},
		{SLH_DSA_SHA2_256f, "SLH-DSA-SHA2-256f", 32, 68, 17, 4, 9, 35, 4, 49, 2, 64, 49856},
		{SLH_DSA_SHAKE_256f, "SLH-DSA-SHAKE-256f", 32, 68, 17, 4, 9, 35, 4, 49, 0, 64, 49856},
	}
}

// ---- section 11 written independently of hash.go

func specShake256(outLen int, parts ...[]byte) []byte {
	var in []byte
	for _, p := range parts {
		in = append(in, p...)
	}
	out := make([]byte, outLen)
	sha3.ShakeSum256(out, in)
	return out
}

func specSHA(big bool, parts ...[]byte) []byte {
	var in []byte
	for _, p := range parts {
		in = append(in, p...)
	}
	if big {
		d := sha512.Sum512(in)
		return d[:]
	}
	d := sha256.Sum256(in)
	return d[:]
}

// RFC 8017 B.2.1: T = Hash(seed || I2OSP(0,4)) || Hash(seed || I2OSP(1,4)) || ...
func specMGF1(big bool, seed []byte, l int) []byte {
	var t []byte
	for c := 0; len(t) < l; c++ {
		t = append(t, specSHA(big, seed, []byte{byte(c >> 24), byte(c >> 16), byte(c >> 8), byte(c)})...)
	}
	return t[:l]
}

// Table 3 compressed address: layer (1 byte) || tree (8) || type (1) || final 12 bytes
func specADRSc(a *address) []byte {
	out := []byte{a[3]}
	out = append(out, a[8:16]...)
	out = append(out, a[19])
	return append(out, a[20:32]...)
}

func specHMAC(big bool, key []byte, parts ...[]byte) []byte {
	var h hash.Hash
	if big {
		h = hmac.New(sha512.New, key)
	} else {
		h = hmac.New(sha256.New, key)
	}
	for _, p := range parts {
		h.Write(p)
	}
	return h.Sum(nil)
}

func VerifH_slh_named_sets() {
	verifrt.EngineOnly()
	// crypto/sha256.Sum256 and crypto/sha512.Sum512 have no environment model: both the code
	// under test and the reference above see the same uninterpreted functions.
	verifrt.Summarize("crypto/sha256.Sum256", func(data []byte) [32]byte {
		var o [32]byte
		copy(o[:], verifrt.UF("sha256.Sum256", 32, data))
		return o
	})
	verifrt.Summarize("crypto/sha512.Sum512", func(data []byte) [64]byte {
		var o [64]byte
		copy(o[:], verifrt.UF("sha512.Sum512", 64, data))
		return o
	})
	row := namedSets()[verifrt.Choice("set", 12)]
	p := row.p
	verifrt.Assert(p != nil, "variable initialised")
	verifrt.Assert(p.n == row.n && p.h == row.h && p.d == row.d && p.hp == row.hp && p.a == row.a && p.k == row.k && p.lgw == row.lgw && p.m == row.m,
		"n, h, d, h', a, k, lg w, m of the named set == FIPS 205 Table 2")
	verifrt.Assert(p.PublicKeyLength() == row.pkBytes && p.SecretKeyLength() == 2*row.pkBytes, "public / secret key bytes == Table 2")
	verifrt.Assert(int((1+p.k*(1+p.a)+p.h+p.d*p.len)*p.n) == row.sigBytes, "signature bytes == Table 2")

	n := int(row.n)
	pkSeed, skSeed, skPrf := verifrt.Bytes("pkseed", n), verifrt.Bytes("skseed", n), verifrt.Bytes("skprf", n)
	pkRoot, r, opt := verifrt.Bytes("pkroot", n), verifrt.Bytes("r", n), verifrt.Bytes("opt", n)
	m1 := verifrt.Bytes("m1", n)
	m2 := verifrt.Bytes("m2", 2*n)
	ml := verifrt.Bytes("ml", 3*n)
	msg := verifrt.Bytes("msg", verifrt.Choice("msglen", 3))
	adrs := newAddress()
	copy(adrs[:], verifrt.Bytes("adrs", 32))

	gotHMsg := p.hHMsg(r, pkSeed, pkRoot, msg)
	gotPrf := p.hPrf(pkSeed, skSeed, adrs)
	gotPrfMsg := p.hPrfMsg(skPrf, opt, msg)
	gotF := p.hF(pkSeed, adrs, m1)
	gotH := p.hH(pkSeed, adrs, m2)
	gotTl := p.hTl(pkSeed, adrs, ml)

	var wHMsg, wPrf, wPrfMsg, wF, wH, wTl []byte
	switch row.family {
	case 0: // 11.1
		wHMsg = specShake256(int(row.m), r, pkSeed, pkRoot, msg)
		wPrf = specShake256(n, pkSeed, adrs[:], skSeed)
		wPrfMsg = specShake256(n, skPrf, opt, msg)
		wF = specShake256(n, pkSeed, adrs[:], m1)
		wH = specShake256(n, pkSeed, adrs[:], m2)
		wTl = specShake256(n, pkSeed, adrs[:], ml)
	case 1: // 11.2.1: SHA-256 everywhere
		wHMsg = specMGF1(false, append(append(append([]byte{}, r...), pkSeed...), specSHA(false, r, pkSeed, pkRoot, msg)...), int(row.m))
		wPrf = specSHA(false, pkSeed, make([]byte, 64-n), specADRSc(adrs), skSeed)[:n]
		wPrfMsg = specHMAC(false, skPrf, opt, msg)[:n]
		wF = specSHA(false, pkSeed, make([]byte, 64-n), specADRSc(adrs), m1)[:n]
		wH = specSHA(false, pkSeed, make([]byte, 64-n), specADRSc(adrs), m2)[:n]
		wTl = specSHA(false, pkSeed, make([]byte, 64-n), specADRSc(adrs), ml)[:n]
	case 2: // 11.2.2: SHA-512 for H_msg, PRF_msg, H, T_l; SHA-256 for PRF and F
		wHMsg = specMGF1(true, append(append(append([]byte{}, r...), pkSeed...), specSHA(true, r, pkSeed, pkRoot, msg)...), int(row.m))
		wPrf = specSHA(false, pkSeed, make([]byte, 64-n), specADRSc(adrs), skSeed)[:n]
		wPrfMsg = specHMAC(true, skPrf, opt, msg)[:n]
		wF = specSHA(false, pkSeed, make([]byte, 64-n), specADRSc(adrs), m1)[:n]
		wH = specSHA(true, pkSeed, make([]byte, 128-n), specADRSc(adrs), m2)[:n]
		wTl = specSHA(true, pkSeed, make([]byte, 128-n), specADRSc(adrs), ml)[:n]
	}
	verifrt.AssertEq(gotHMsg, wHMsg, "H_msg of the named set == FIPS 205 section 11 instantiation")
	verifrt.AssertEq(gotPrf, wPrf, "PRF of the named set == FIPS 205 section 11 instantiation")
	verifrt.AssertEq(gotPrfMsg, wPrfMsg, "PRF_msg of the named set == FIPS 205 section 11 instantiation")
	verifrt.AssertEq(gotF, wF, "F of the named set == FIPS 205 section 11 instantiation")
	verifrt.AssertEq(gotH, wH, "H of the named set == FIPS 205 section 11 instantiation")
	verifrt.AssertEq(gotTl, wTl, "T_l of the named set == FIPS 205 section 11 instantiation")
	verifrt.Reach("end")
}
