package signature

import (
	"crypto"
	"crypto/rand"
	"crypto/rsa"
	"crypto/sha256"
	"encoding/binary"
	"errors"
	"io"
	"math/big"

	"github.com/tink-crypto/tink-go/v2/internal/verifrt"
)

// A fixed 2048-bit RSA key (generated for this harness; no secrecy intended).
const (
	verifN = "ce1c476a2749ec7e128f19797abbbea03e15af0445195167680d920fdae1bcaec380a5dc877254433330346ae6806848" +
	"ca8d7ceab1759e5ce56e98e5ad1c2048517fee6368ea49c7e994ab8ecbb28a050ab3e904e205dcdda380dbbf731399f0" +
	"f6a6970bb5d1b27c4f06b7dcaeb576d685ecf1ae11cea4e64a39d2e1a8992cb8a30890de65e71c147361a753ade7264f" +
	"ef5eff3af0013612baee134af2bcd482eec5c9d248dae0b13a54c5a8e86511064f26157da122f3c7a00e9cc77cbfbf83" +
	"db02c4b8c23d0b338437b4b0ba0d5a049a8b132e054f7b61622d28d146f03e3c6d4f7ca23ccd3d5c9958d09db0cdb8f4" +
	"e45d284910c45d19b6b8aeb25d54160b"
	verifD = "2bf35dcb261b9e6177e5a9e1fca9024a3b52f6622bb5ed64e68c564429418fb198a0db3d7e6883cd5ca1ffdb77d193eb" +
	"49be081027cd53faad35fb46a6b663afe82926956e2edf92d09d5243fdedd17ea7bc9b88de05b00657324829b8094aff" +
	"562949f6464c340a4bf3bbcb443a0fe048e8b0d494998312546ba62b567f6b4885cd5d7bc9e5c7a2bbc2985995f15d23" +
	"79ea955914056e876d11e21882f5c57544ab0cb5e777a61e37c7e5c5a7310268a1ee7ef079e5be70e40a4ed3c850775f" +
	"0558e24f45b3a80d19ebfd1196e71f24505972dddbcd8f2a1b01ab6bf75c673cef68c6146cf3cf6638451f3fb6bbd022" +
	"bd0574aec4cf7387a3c42d0f85213869"
	verifP = "d5fdc11bf034489d35e5c531ef1c2b128ffca0d2eef95281daa3e286815bfac8d3102e0b83a6ccefe6b0715e233e0d1f" +
	"69d0950982bacede978c6801942d9652ac0fa3de797136c254b6b68cdaa69f08fa80de2f7e54b46e0a8a5e814c02208a" +
	"a1e166bd08d3435b238086edc287817aaf6785cc492956869168ac3ed0e63a5f"
	verifQ = "f69278fb7f11315b4c1d4442a3cadeb88b7060a5b64844a34b22b164614a20c3dea144a2f45cfd640d18753ca1042e50" +
	"ce867372b163cbe8621e643755656a2d4e17c0ce69ef80171895fc5ef7eaa8acc15d8d488eddffdf3e6f11cc2edfda70" +
	"fd92a8913b1467545b75c7b893cee94412b353d2f0c8071f678e2acb4a529bd5"
)

func verifBig(h string) *big.Int {
	v, ok := new(big.Int).SetString(h, 16)
	if !ok {
		panic("bad constant")
	}
	return v
}

func verifRSAKey() *rsa.PrivateKey {
	k := &rsa.PrivateKey{PublicKey: rsa.PublicKey{N: verifBig(verifN), E: 65537}, D: verifBig(verifD), Primes: []*big.Int{verifBig(verifP), verifBig(verifQ)}}
	if !verifrt.Symbolic() {
		k.Precompute()
	}
	return k
}

// largest salt an EMSA-PSS encoding for a 2048-bit modulus and SHA-256 can carry:
// emLen - hLen - 2 with emLen = ceil(2047 / 8)
const pssMaxSalt = 256 - 32 - 2

// ---- model of crypto/rsa's PSS entry points (engine side), following the documented
// contract of rsa.PSSOptions.SaltLength: a positive number of bytes, or PSSSaltLengthAuto
// (0: "as large as possible when signing, auto-detected when verifying"), or
// PSSSaltLengthEqualsHash (-1). The ideal signature is a deterministic function of the
// digest and the salt length it carries.

func idealPSS(digest []byte, saltLen int) []byte {
	var l [4]byte
	binary.BigEndian.PutUint32(l[:], uint32(saltLen))
	return append(l[:], verifrt.UF("PSSSIG", 8, append(append([]byte{}, digest...), l[:]...))...)
}

var errPSS = errors.New("crypto/rsa model: error")

func modelSaltLength(opt, hLen int) (int, bool) {
	switch {
	case opt == rsa.PSSSaltLengthAuto:
		return pssMaxSalt, true
	case opt == rsa.PSSSaltLengthEqualsHash:
		return hLen, true
	case opt < 0 || opt > pssMaxSalt:
		return 0, false
	}
	return opt, true
}

func stubPSS() {
	verifrt.Summarize("crypto/rsa.SignPSS", func(_ io.Reader, _ *rsa.PrivateKey, h crypto.Hash, digest []byte, opts *rsa.PSSOptions) ([]byte, error) {
		sl, ok := modelSaltLength(opts.SaltLength, len(digest))
		if !ok {
			return nil, errPSS
		}
		return idealPSS(digest, sl), nil
	})
	verifrt.Summarize("crypto/rsa.VerifyPSS", func(_ *rsa.PublicKey, h crypto.Hash, digest, sig []byte, opts *rsa.PSSOptions) error {
		if len(sig) != 12 {
			return errPSS
		}
		carried := int(binary.BigEndian.Uint32(sig[:4]))
		if !verifrt.EqBytes(sig, idealPSS(digest, carried)) {
			return errPSS
		}
		if opts.SaltLength == rsa.PSSSaltLengthAuto {
			return nil
		}
		if want, ok := modelSaltLength(opts.SaltLength, len(digest)); !ok || want != carried {
			return errPSS
		}
		return nil
	})
	verifrt.Summarize("internal/signature.strictPSSVerify", func(_ *rsa.PublicKey, sLen int, digest, sig []byte) bool {
		return verifrt.EqBytes(sig, idealPSS(digest, sLen))
	})
}

// strictPSSVerify is an independent RSASSA-PSS verifier (RFC 8017, 8.1.2 / 9.1.2) for
// SHA-256 / MGF1-SHA-256 that insists on a salt of exactly sLen bytes. It runs natively;
// under the engine it is replaced by the ideal-signature model above.
func strictPSSVerify(pub *rsa.PublicKey, sLen int, mHash, sig []byte) bool {
	k := (pub.N.BitLen() + 7) / 8
	if len(sig) != k {
		return false
	}
	s := new(big.Int).SetBytes(sig)
	if s.Cmp(pub.N) >= 0 {
		return false
	}
	m := new(big.Int).Exp(s, big.NewInt(int64(pub.E)), pub.N)
	emBits := pub.N.BitLen() - 1
	emLen := (emBits + 7) / 8
	if m.BitLen() > 8*emLen {
		return false
	}
	em := m.FillBytes(make([]byte, emLen))
	const hLen = sha256.Size
	if emLen < hLen+sLen+2 || em[emLen-1] != 0xbc {
		return false
	}
	db, h := em[:emLen-hLen-1], em[emLen-hLen-1:emLen-1]
	topMask := byte(0xff) >> (8*emLen - emBits)
	if db[0]&^topMask != 0 {
		return false
	}
	// MGF1
	var ctr [4]byte
	for off := 0; off < len(db); off += hLen {
		hh := sha256.New()
		hh.Write(h)
		hh.Write(ctr[:])
		blk := hh.Sum(nil)
		for i := 0; i < hLen && off+i < len(db); i++ {
			db[off+i] ^= blk[i]
		}
		binary.BigEndian.PutUint32(ctr[:], binary.BigEndian.Uint32(ctr[:])+1)
	}
	db[0] &= topMask
	ps := emLen - hLen - sLen - 2
	for i := 0; i < ps; i++ {
		if db[i] != 0 {
			return false
		}
	}
	if db[ps] != 0x01 {
		return false
	}
	hh := sha256.New()
	hh.Write(make([]byte, 8))
	hh.Write(mHash)
	hh.Write(db[ps+1:])
	want := hh.Sum(nil)
	for i := range want {
		if want[i] != h[i] {
			return false
		}
	}
	return true
}

// RSA-SSA-PSS: for every salt length a key may carry, Sign's output is accepted by an
// independent strict verifier that insists on exactly that salt length, and Verify rejects a
// genuine signature made with any other salt length.
func VerifH_sig_rsapss_salt() {
	salt := verifrt.IntRange("salt", 0, pssMaxSalt)
	key := verifRSAKey()
	stubPSS()
	s, err := New_RSA_SSA_PSS_Signer("SHA256", salt, key)
	verifrt.Assert(err == nil, "New_RSA_SSA_PSS_Signer")
	v, err := New_RSA_SSA_PSS_Verifier("SHA256", salt, &key.PublicKey)
	verifrt.Assert(err == nil, "New_RSA_SSA_PSS_Verifier")
	msg := verifrt.Bytes("msg", verifrt.Choice("n", 3))
	d := sha256.Sum256(msg)
	sig, err := s.Sign(msg)
	verifrt.Assert(err == nil, "Sign succeeds")
	verifrt.Assert(v.Verify(sig, msg) == nil, "the matching verifier accepts")
	// the salt length 0 is kept apart: crypto/rsa gives SaltLength == 0 another meaning
	if verifrt.Choice("side", 2) == 0 {
		strict := strictPSSVerify(&key.PublicKey, salt, d[:], sig)
		if salt == 0 {
			verifrt.Assert(strict, "salt length 0: Sign's output verifies under a strict RFC 8017 verifier with sLen = 0")
		} else {
			verifrt.Assert(strict, "salt length > 0: Sign's output verifies under a strict RFC 8017 verifier with the key's salt length")
		}
	} else {
		other := verifrt.IntRange("other", 1, pssMaxSalt)
		verifrt.Assume(other != salt)
		foreign, err := rsa.SignPSS(rand.Reader, key, crypto.SHA256, d[:], &rsa.PSSOptions{SaltLength: other})
		verifrt.Assert(err == nil, "reference signature with another salt length")
		rejected := v.Verify(foreign, msg) != nil
		if salt == 0 {
			verifrt.Assert(rejected, "salt length 0: Verify rejects a signature carrying a non-empty salt")
		} else {
			verifrt.Assert(rejected, "salt length > 0: Verify rejects a signature carrying another salt length")
		}
	}
	verifrt.Reach("end")
}
