package mldsa

import "github.com/tink-crypto/tink-go/v2/internal/verifrt"

// ---- FIPS 204 reference functions (mathematical style, signed 64-bit ints)

const specQ = 8380417

func specMod(a, m int32) int32 { // a mod m in [0,m)
	r := a % m
	if r < 0 {
		r += m
	}
	return r
}

// specModPM: a mod± m in (-ceil(m/2), floor(m/2)]  (FIPS 204 §2.3)
func specModPM(a, m int32) int32 {
	r := specMod(a, m)
	if r > m/2 {
		r -= m
	}
	return r
}

// Algorithm 36 Decompose; returns (r1, r0) with r0 signed.
func specDecompose(r int32, gamma2 int32) (int32, int32) {
	rp := specMod(r, specQ)
	r0 := specModPM(rp, 2*gamma2)
	var r1 int32
	if rp-r0 == specQ-1 {
		r1 = 0
		r0 = r0 - 1
	} else {
		r1 = (rp - r0) / (2 * gamma2)
	}
	return r1, r0
}

// Algorithm 40 UseHint
func specUseHint(h int32, r int32, gamma2 int32) int32 {
	m := (specQ - 1) / (2 * gamma2)
	r1, r0 := specDecompose(r, gamma2)
	if h == 1 && r0 > 0 {
		return specMod(r1+1, m)
	}
	if h == 1 && r0 <= 0 {
		return specMod(r1-1, m)
	}
	return r1
}

func gamma2Of(name string) uint32 {
	if verifrt.Choice(name, 2) == 0 {
		return (q - 1) / 88
	}
	return (q - 1) / 32
}

func VerifH_mldsa_reduceOnce() {
	a := verifrt.Uint32("a")
	verifrt.Assume(a < 2*q)
	r := rZq(a).reduceOnce()
	verifrt.Assert(uint32(r) < q, "reduceOnce in range")
	verifrt.Assert(int32(r) == specMod(int32(a), specQ), "reduceOnce == a mod q")
	verifrt.Reach("end")
}

func VerifH_mldsa_addsubneg() {
	a := verifrt.Uint32("a")
	b := verifrt.Uint32("b")
	verifrt.Assume(a < q && b < q)
	s := rZq(a).add(rZq(b))
	d := rZq(a).sub(rZq(b))
	n := rZq(a).neg()
	verifrt.Assert(int32(s) == specMod(int32(a)+int32(b), specQ), "add == (a+b) mod q")
	verifrt.Assert(int32(d) == specMod(int32(a)-int32(b), specQ), "sub == (a-b) mod q")
	verifrt.Assert(int32(n) == specMod(-int32(a), specQ), "neg == -a mod q")
	verifrt.Reach("end")
}

func VerifH_mldsa_power2Round() {
	a := verifrt.Uint32("a")
	verifrt.Assume(a < q)
	r1, r0 := rZq(a).power2Round()
	// Algorithm 35: r0 = a mod± 2^d, r1 = (a - r0)/2^d ; r0 is kept mod q by the code.
	sr0 := specModPM(int32(a), 1<<d)
	sr1 := (int32(a) - sr0) >> d
	verifrt.Assert(int32(r1) == sr1, "power2Round r1")
	verifrt.Assert(int32(r0) == specMod(sr0, specQ), "power2Round r0 (mod q representative)")
	verifrt.Assert(int32(rZq(r1).scalePower2()) == sr1<<d, "scalePower2")
	verifrt.Reach("end")
}

func VerifH_mldsa_divBy2Gamma2() {
	a := verifrt.Uint32("a")
	g := gamma2Of("g88")
	verifrt.Assume(a < q+g)
	verifrt.Assert(divBy2Gamma2(a, g) == a/(2*g), "divBy2Gamma2 == a / (2*gamma2)")
	verifrt.Reach("end")
}

func VerifH_mldsa_divBy2Gamma2_badgamma() {
	a := verifrt.Uint32("a")
	g := verifrt.Uint32("g")
	verifrt.Assume(g != (q-1)/88 && g != (q-1)/32)
	p := verifrt.ExpectPanic(func() { divBy2Gamma2(a, g) })
	verifrt.Assert(p, "divBy2Gamma2 panics for any other gamma2")
	verifrt.Reach("end")
}

func VerifH_mldsa_decompose() {
	a := verifrt.Uint32("a")
	g := gamma2Of("g88")
	verifrt.Assume(a < q)
	r1, r0 := rZq(a).decompose(g)
	s1, s0 := specDecompose(int32(a), int32(g))
	verifrt.Assert(int32(r1) == s1, "decompose r1 == Algorithm 36")
	verifrt.Assert(int32(r0) == specMod(s0, specQ), "decompose r0 == Algorithm 36 (mod q representative)")
	verifrt.Assert(rZq(a).highBits(g) == r1 && rZq(a).lowBits(g) == r0, "highBits/lowBits are the components")
	verifrt.Reach("end")
}

func VerifH_mldsa_useHint() {
	a := verifrt.Uint32("a")
	h := verifrt.Uint32("h")
	g := gamma2Of("g88")
	verifrt.Assume(a < q && h <= 1)
	got := rZq(a).useHint(g, rZq(h))
	want := specUseHint(int32(h), int32(a), int32(g))
	verifrt.Assert(int32(got) == want, "useHint == Algorithm 40")
	verifrt.Reach("end")
}

func VerifH_mldsa_makeHint() {
	z := verifrt.Uint32("z")
	r := verifrt.Uint32("r")
	g := gamma2Of("g88")
	verifrt.Assume(z < q && r < q)
	got := rZq(z).makeHint(g, rZq(r))
	r1, _ := specDecompose(int32(r), int32(g))
	v1, _ := specDecompose(int32(r)+int32(z), int32(g))
	want := int32(0)
	if r1 != v1 {
		want = 1
	}
	verifrt.Assert(int32(got) == want, "makeHint == Algorithm 39")
	verifrt.Reach("end")
}

// FIPS 204 hint lemma: for |z| <= gamma2, UseHint(MakeHint(z, r), r) = HighBits(r + z).
func VerifH_mldsa_hintLemma() {
	z := verifrt.Uint32("z")
	r := verifrt.Uint32("r")
	g := gamma2Of("g88")
	verifrt.Assume(z < q && r < q)
	verifrt.Assume(rZq(z).centeredAbs() <= g)
	h := rZq(z).makeHint(g, rZq(r))
	got := rZq(r).useHint(g, h)
	want := rZq(r).add(rZq(z)).highBits(g)
	verifrt.Assert(got == want, "useHint(r, makeHint(z,r)) == highBits(r+z)")
	verifrt.Reach("end")
}

func VerifH_mldsa_centeredAbs() {
	a := verifrt.Uint32("a")
	b := verifrt.Uint32("b")
	verifrt.Assume(a < q && b < q)
	sa := specModPM(int32(a), specQ)
	if sa < 0 {
		sa = -sa
	}
	sb := specModPM(int32(b), specQ)
	if sb < 0 {
		sb = -sb
	}
	verifrt.Assert(int32(rZq(a).centeredAbs()) == sa, "centeredAbs == |a mod± q|")
	m := rZq(a).centeredMax(rZq(b))
	want := a
	if sb > sa {
		want = b
	}
	verifrt.Assert(uint32(m) == want, "centeredMax picks the larger |.| (first on ties)")
	verifrt.Reach("end")
}

// Barrett multiplication with the 46-bit product cut out: the harness re-implements the
// body after `prod` by calling mulFromProd, a copy kept in sync by the engine's source check.
func VerifH_mldsa_mul() {
	a := verifrt.Uint32("a")
	b := verifrt.Uint32("b")
	verifrt.Assume(a < q && b < q)
	// reduceOnce is replaced by its specification, proven by VerifH_mldsa_reduceOnce.
	verifrt.Summarize("mldsa.rZq).reduceOnce", func(x rZq) rZq {
		verifrt.Assert(uint32(x) < 2*q, "reduceOnce summary precondition: argument < 2q")
		if uint32(x) >= q {
			return x - q
		}
		return x
	})
	verifrt.CutNext("prod", 0, (q-1)*(q-1))
	verifrt.Tag("arith")
	r := rZq(a).mul(rZq(b))
	p := verifrt.CutValueOr("prod", uint64(a)*uint64(b))
	verifrt.Assert(uint32(r) < q, "mul result in range")
	// r == p mod q, phrased as (r < q  and  r <= p  and  q | p-r), which is equivalent and
	// is the form the integer-blasting back end decides in well under a second.
	verifrt.Assert(uint64(r) <= p && (p-uint64(r))%q == 0, "mul == prod mod q for every prod <= (q-1)^2")
	verifrt.Reach("end")
}
