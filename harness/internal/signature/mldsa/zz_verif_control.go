package mldsa

import (
	"golang.org/x/crypto/sha3"

	"github.com/tink-crypto/tink-go/v2/internal/verifrt"
)

// Control logic of ML-DSA.Verify_internal (FIPS 204 Algorithm 8) and ML-DSA.Sign_internal
// (Algorithm 7) with the heavy kernels (ExpandA, NTT, NTT^-1, matrix/scalar products,
// SampleInBall, ExpandMask) replaced by recording stubs. The stubs hand out fresh objects and
// log an expression DAG, so that the harness decides
//   - which values reach which kernel (data flow of Algorithms 7 and 8), and
//   - the accept / restart decisions as a function of the intermediate values,
// against constants and formulas written here independently from FIPS 204.

// ---- FIPS 204 Table 1 / Table 2, written independently of the code under test.

type specParams struct {
	k, l, eta, tau, lambda int
	gamma1, gamma2, beta   uint32
	omega                  int
	pkLen, skLen, sigLen   int
	zBits, w1Bits, etaBits int // bitlen(2*gamma1 - 1), bitlen((q-1)/(2*gamma2) - 1), bitlen(2*eta)
}

var specSets = [3]specParams{
	// ML-DSA-44
	{k: 4, l: 4, eta: 2, tau: 39, lambda: 128, gamma1: 131072, gamma2: 95232, beta: 78, omega: 80,
		pkLen: 1312, skLen: 2560, sigLen: 2420, zBits: 18, w1Bits: 6, etaBits: 3},
	// ML-DSA-65
	{k: 6, l: 5, eta: 4, tau: 49, lambda: 192, gamma1: 524288, gamma2: 261888, beta: 196, omega: 55,
		pkLen: 1952, skLen: 4032, sigLen: 3309, zBits: 20, w1Bits: 4, etaBits: 4},
	// ML-DSA-87
	{k: 8, l: 7, eta: 2, tau: 60, lambda: 256, gamma1: 524288, gamma2: 261888, beta: 120, omega: 75,
		pkLen: 2592, skLen: 4896, sigLen: 4627, zBits: 20, w1Bits: 4, etaBits: 3},
}

func ctlSet() (*params, *specParams) {
	i := verifrt.Choice("set", 3)
	return sets[i], &specSets[i]
}

// ---- small reference functions

// specPackBits: little-endian bit string of the values, `bits` bits each (IntegerToBits +
// BitsToBytes of FIPS 204 Algorithms 9, 12, 16).
func specPackBits(vals []uint32, bits int) []byte {
	out := make([]byte, len(vals)*bits/8)
	var acc uint64
	n, o := 0, 0
	for _, v := range vals {
		acc |= uint64(v) << uint(n)
		n += bits
		for n >= 8 {
			out[o] = byte(acc)
			acc >>= 8
			n -= 8
			o++
		}
	}
	return out
}

// specUnpackBits is the inverse reader.
func specUnpackBits(y []byte, bits int) []uint32 {
	out := make([]uint32, len(y)*8/bits)
	var acc uint64
	n, i := 0, 0
	for o := range out {
		for n < bits {
			acc |= uint64(y[i]) << uint(n)
			n += 8
			i++
		}
		out[o] = uint32(acc & (1<<uint(bits) - 1))
		acc >>= uint(bits)
		n -= bits
	}
	return out
}

// specAbs: | a mod± q | for a in [0, q)  (FIPS 204 section 2.3)
func specAbs(a uint32) uint32 {
	if a > (specQ-1)/2 {
		return specQ - a
	}
	return a
}

func shake256(n int, parts ...[]byte) []byte {
	var in []byte
	for _, p := range parts {
		in = append(in, p...)
	}
	out := make([]byte, n)
	sha3.ShakeSum256(out, in)
	return out
}

// a concrete pseudo-random element of [0, m)
func ctlRand(state *uint32, m uint32) uint32 {
	*state = *state*1664525 + 1013904223
	return (*state >> 8) % m
}

// the three probed coefficient positions: first, one in the middle, last
func ctlPos(name string, dim int) (int, int) {
	switch verifrt.Choice(name, 3) {
	case 0:
		return 0, 0
	case 1:
		return dim / 2, 131
	}
	return dim - 1, 255
}

// ---- the expression DAG logged by the stubs

type ctlNode struct {
	op    string
	args  []int
	pv    *poly    // identity of a poly / vector (first element)
	pn    *polyNTT // identity of a polyNTT / vectorNTT / matrixNTT (first element)
	vec   vector   // content of a leaf vector
	bytes []byte   // byte argument (rho, c~, rho'' ...)
	num   int      // integer argument (kappa, dimension)
	iter  int      // loop iteration of Sign that created the node
}

type ctlTrace struct {
	nodes []ctlNode
	bad   bool
	iter  int
}

func (t *ctlTrace) add(n ctlNode) int {
	n.iter = t.iter
	t.nodes = append(t.nodes, n)
	return len(t.nodes) - 1
}

func (t *ctlTrace) ofPoly(p *poly, v vector) int {
	for i := range t.nodes {
		if t.nodes[i].pv == p {
			return i
		}
	}
	return t.add(ctlNode{op: "leaf", pv: p, vec: v})
}

func (t *ctlTrace) ofNTT(p *polyNTT) int {
	for i := range t.nodes {
		if t.nodes[i].pn == p {
			return i
		}
	}
	t.bad = true // no NTT-domain value enters from outside the stubs
	return t.add(ctlNode{op: "leafNTT", pn: p})
}

// is: node id has operator op; returns its arguments (or a harmless self reference).
func (t *ctlTrace) is(id int, op string, nargs int) []int {
	n := t.nodes[id]
	if n.op != op || len(n.args) != nargs {
		t.bad = true
		r := make([]int, nargs)
		for i := range r {
			r[i] = id
		}
		return r
	}
	return n.args
}

func (t *ctlTrace) find(op string, nth int) int {
	for i := range t.nodes {
		if t.nodes[i].op == op {
			if nth == 0 {
				return i
			}
			nth--
		}
	}
	return -1
}

func (t *ctlTrace) count(op string) int {
	c := 0
	for i := range t.nodes {
		if t.nodes[i].op == op {
			c++
		}
	}
	return c
}

// bytes.Compare reaches an assembly routine; replaced by its definition (lexicographic order),
// stated without branches on the bytes: the result is the integer r with r = -1 / 0 / 1
// according to a < b / a == b / a > b.
func ctlStubBytesCompare() {
	calls := 0
	verifrt.Summarize("bytes.Compare", func(a, b []byte) int {
		lt, gt := len(a) < len(b), len(a) > len(b)
		for i := min(len(a), len(b)) - 1; i >= 0; i-- {
			e := a[i] == b[i]
			lt = verifrt.Or(a[i] < b[i], verifrt.And(e, lt))
			gt = verifrt.Or(a[i] > b[i], verifrt.And(e, gt))
		}
		r := verifrt.Int("bytes.Compare#" + itoa(calls))
		calls++
		verifrt.Assume(verifrt.Implies(lt, r == -1))
		verifrt.Assume(verifrt.Implies(gt, r == 1))
		verifrt.Assume(verifrt.Implies(verifrt.Not(verifrt.Or(lt, gt)), r == 0))
		return r
	})
}

// ctlStubNorm replaces vector.infinityNorm by its specification max_i |v_i mod± q|. The
// coefficients other than the probed one are concrete in these harnesses and are folded by
// ordinary (concrete) execution; the probed coefficient enters relationally (the result r
// satisfies r >= M, r >= |a| and r == M or r == |a|), which avoids the 256*dim deep chain of
// selects of the real function. Justified by VerifH_mldsa_infinityNorm, which runs the real
// function on the same family of vectors (one arbitrary coefficient at the first / a middle /
// the last position, concrete elsewhere).
func ctlStubNorm(probe func() (int, int)) {
	calls := 0
	verifrt.Summarize("mldsa.vector).infinityNorm", func(v vector) uint32 {
		const half = (specQ - 1) / 2
		pi, pj := probe()
		M := uint32(0)
		for i := range v {
			for j := range v[i] {
				if i == pi && j == pj {
					continue
				}
				if a := specAbs(uint32(v[i][j])); a > M {
					M = a
				}
			}
		}
		if pi >= len(v) {
			return M
		}
		a := uint32(v[pi][pj])
		r := verifrt.Uint32("infinityNorm#" + itoa(calls))
		calls++
		lo := a <= half
		verifrt.Assume(verifrt.And(M <= r, verifrt.Or(verifrt.And(lo, a <= r), verifrt.And(!lo, q-a <= r))))
		verifrt.Assume(verifrt.Or(r == M, verifrt.Or(verifrt.And(lo, a == r), verifrt.And(!lo, q-a == r))))
		return r
	})
}

// ctlStubAlgebra installs the stubs shared by the Sign and Verify harnesses. inttOut decides
// what NTT^-1 returns for a given argument node.
func ctlStubAlgebra(t *ctlTrace, par *params, inttOut func(arg int) vector) {
	verifrt.Summarize("mldsa.params).expandA", func(p *params, rho [32]byte) matrixNTT {
		e := &polyNTT{}
		t.add(ctlNode{op: "expandA", pn: e, bytes: append([]byte{}, rho[:]...)})
		return matrixNTT{[]*polyNTT{e}}
	})
	verifrt.Summarize("mldsa.params).sampleInBall", func(p *params, rho []byte) *poly {
		c := &poly{}
		t.add(ctlNode{op: "sampleInBall", pv: c, bytes: append([]byte{}, rho...)})
		return c
	})
	verifrt.Summarize("mldsa.vector).ntt", func(v vector) vectorNTT {
		r := makeZeroVectorNTT(len(v))
		a := t.ofPoly(v[0], v)
		t.add(ctlNode{op: "vntt", pn: r[0], args: []int{a}})
		return r
	})
	verifrt.Summarize("mldsa.poly).ntt", func(p *poly) *polyNTT {
		r := &polyNTT{}
		a := t.ofPoly(p, nil)
		t.add(ctlNode{op: "pntt", pn: r, args: []int{a}})
		return r
	})
	verifrt.Summarize("mldsa.matrixNTT).mul", func(m matrixNTT, v vectorNTT) vectorNTT {
		r := makeZeroVectorNTT(par.k)
		a, b := t.ofNTT(m[0][0]), t.ofNTT(v[0])
		t.add(ctlNode{op: "mmul", pn: r[0], args: []int{a, b}, num: len(v)})
		return r
	})
	verifrt.Summarize("mldsa.polyNTT).scalarMul", func(p *polyNTT, v vectorNTT) vectorNTT {
		r := makeZeroVectorNTT(len(v))
		a, b := t.ofNTT(p), t.ofNTT(v[0])
		t.add(ctlNode{op: "smul", pn: r[0], args: []int{a, b}})
		return r
	})
	verifrt.Summarize("mldsa.vectorNTT).sub", func(v, w vectorNTT) vectorNTT {
		r := makeZeroVectorNTT(len(v))
		a, b := t.ofNTT(v[0]), t.ofNTT(w[0])
		t.add(ctlNode{op: "vsub", pn: r[0], args: []int{a, b}, num: len(w)})
		return r
	})
	verifrt.Summarize("mldsa.vectorNTT).intt", func(v vectorNTT) vector {
		a := t.ofNTT(v[0])
		r := inttOut(a)
		t.add(ctlNode{op: "intt", pv: r[0], args: []int{a}, num: len(v)})
		return r
	})
}

func ctlConstVector(dim int, seed uint32, m uint32) vector {
	v := makeZeroVector(dim)
	s := seed
	for i := range v {
		for j := range v[i] {
			v[i][j] = rZq(ctlRand(&s, m))
		}
	}
	return v
}

func specW1Encode(sp *specParams, w1 [][]uint32) []byte {
	var out []byte
	for i := range w1 {
		out = append(out, specPackBits(w1[i], sp.w1Bits)...)
	}
	return out
}

// ---- parameter tables (FIPS 204 Tables 1 and 2) and the global constants

func VerifH_mldsa_tables() {
	par, sp := ctlSet()
	verifrt.Assert(q == 8380417 && q == 1<<23-1<<13+1 && d == 13 && degree == 256 && zeta == 1753 && qBits == 23, "q, d, n, zeta (Table 1)")
	verifrt.Assert(uint64(inv256)*256%q == 1, "inv256 * 256 == 1 mod q")
	// zeta is a primitive 512th root of unity: zeta^256 == -1
	p := uint64(1)
	for i := 0; i < 256; i++ {
		p = p * zeta % q
	}
	verifrt.Assert(p == q-1, "zeta^256 == -1 mod q")
	verifrt.Assert(par.k == sp.k && par.l == sp.l, "(k, l) == Table 1")
	verifrt.Assert(par.eta == sp.eta, "eta == Table 1")
	verifrt.Assert(par.tau == sp.tau, "tau == Table 1")
	verifrt.Assert(par.lambda == sp.lambda, "lambda == Table 1")
	verifrt.Assert(uint32(1)<<uint(par.log2Gamma1) == sp.gamma1, "gamma1 == Table 1")
	verifrt.Assert(par.gamma2 == sp.gamma2, "gamma2 == Table 1")
	verifrt.Assert(uint32(par.tau*par.eta) == sp.beta, "beta = tau * eta == Table 1")
	verifrt.Assert(par.omega == sp.omega, "omega == Table 1")
	verifrt.Assert(par.etaBits == sp.etaBits && par.w1Bits == sp.w1Bits && par.log2Gamma1+1 == sp.zBits, "derived bit lengths: bitlen(2 eta), bitlen((q-1)/(2 gamma2) - 1), bitlen(2 gamma1 - 1)")
	verifrt.Assert(par.PublicKeyLength() == sp.pkLen, "public key size == Table 2")
	verifrt.Assert(par.SecretKeyLength() == sp.skLen, "private key size == Table 2")
	sig := par.sigEncode(make([]byte, par.lambda/4), makeZeroVector(par.l), makeZeroVector(par.k))
	verifrt.Assert(len(sig) == sp.sigLen, "signature size == Table 2")
	_, _, _, err := par.sigDecode(sig)
	verifrt.Assert(err == nil, "sigDecode accepts the Table 2 size")
	// the exported parameter sets are distinct objects with distinct contents
	verifrt.Assert(MLDSA44 != MLDSA65 && MLDSA65 != MLDSA87 && MLDSA44.k == 4 && MLDSA65.k == 6 && MLDSA87.k == 8, "MLDSA44/65/87 are the three sets in this order")
	verifrt.Reach("end")
}

// ---- infinity norm: a vector with one arbitrary coefficient over all of [0, q) at the first /
// a middle / the last position, a concrete background whose largest |.| is known.

func VerifH_mldsa_infinityNorm() {
	dim := [...]int{4, 5, 7, 8}[verifrt.Choice("dim", 4)] // every l and the extreme k
	v := makeZeroVector(dim)
	// background: one concrete coefficient with |.| = B in the middle
	bgi := verifrt.Choice("bg", 3)
	B := [...]uint32{0, 1000, 2000}[bgi]
	bgv := [...]uint32{0, 1000, q - 2000}[bgi]
	v[dim/2][77] = rZq(bgv)
	pi, pj := ctlPos("pos", dim)
	x := verifrt.Uint32("x")
	verifrt.Assume(x < q)
	v[pi][pj] = rZq(x)
	got := v.infinityNorm()
	// | x mod± q | = x for x <= (q-1)/2, q - x otherwise; the norm is the larger of that and B
	const half = (specQ - 1) / 2
	lo, hi := x <= half, x > half
	c1 := verifrt.Implies(verifrt.And(lo, x >= B), got == x)
	c2 := verifrt.Implies(verifrt.And(lo, x < B), got == B)
	c3 := verifrt.Implies(verifrt.And(hi, q-x >= B), got == q-x)
	c4 := verifrt.Implies(verifrt.And(hi, q-x < B), got == B)
	verifrt.Assert(verifrt.And(verifrt.And(c1, c2), verifrt.And(c3, c4)), "infinityNorm == max_i | v_i mod± q |")
	verifrt.Reach("end")
}

// ---- ML-DSA.Verify_internal (Algorithm 8)

type ctlHint struct {
	enc []byte // omega + k bytes
}

// ctlHintCase: hint encodings around the omega boundary, at the real (k, omega).
//   0: no hints                        1: omega hints, all in polynomial 0
//   2: omega hints spread over polynomials (last count == omega)
//   3: last count byte omega+1 (one index too many: must be rejected)
//   4: counts decrease                 5: non-zero padding
//   6: one symbolic index byte (strictly-increasing check)  7: one symbolic count byte
func ctlHintCase(sp *specParams, which int) []byte {
	y := make([]byte, sp.omega+sp.k)
	fill := func(counts []int) {
		idx := 0
		for i, c := range counts {
			for j := 0; j < c; j++ {
				y[idx] = byte(3*j + i)
				idx++
			}
			y[sp.omega+i] = byte(idx)
		}
	}
	counts := make([]int, sp.k)
	switch which {
	case 0:
		fill(counts)
	case 1:
		counts[0] = sp.omega
		fill(counts)
	case 2:
		rest := sp.omega
		for i := range counts {
			counts[i] = sp.omega / sp.k
			rest -= counts[i]
		}
		counts[sp.k-1] += rest
		fill(counts)
	case 3:
		counts[0] = sp.omega
		fill(counts)
		y[sp.omega+sp.k-1] = byte(sp.omega + 1)
	case 4:
		counts[0], counts[1] = 3, 2
		fill(counts)
		y[sp.omega+1] = 2
	case 5:
		counts[0], counts[sp.k-1] = 2, 1
		fill(counts)
		y[sp.omega-1] = 1
	case 6:
		counts[0], counts[sp.k-1] = 3, 2
		fill(counts)
		y[1] = verifrt.Byte("hidx")
	default:
		counts[0], counts[sp.k-1] = 2, 2
		fill(counts)
		// 0..5 in range, the exact boundary omega / omega+1 is covered by cases 1-3
		c := verifrt.Byte("hcnt")
		verifrt.Assume(c <= 5 || c >= byte(sp.omega))
		y[sp.omega+sp.k-1] = c
	}
	return y
}

func VerifH_mldsa_verify_control() {
	verifrt.EngineOnly()
	par, sp := ctlSet()
	t := &ctlTrace{}

	// public key: arbitrary rho and tr do not matter to the control flow; t1 is a concrete
	// 10-bit pattern (its only use is t1 * 2^d handed to NTT)
	pk := &PublicKey{par: par, t1: ctlConstVector(par.k, 7, 1024)}
	copy(pk.rho[:], verifrt.Bytes("rho", 32))

	// w'_approx as returned by the NTT^-1 stub: concrete pattern over all of [0, q)
	wp := ctlConstVector(par.k, 11, q)
	zpi, zpj := 0, 0
	ctlStubAlgebra(t, par, func(arg int) vector { return wp })
	ctlStubBytesCompare()
	ctlStubNorm(func() (int, int) { return zpi, zpj })

	// the signature: c~ arbitrary; z all zero (packed value gamma1) except one coefficient
	// whose packed value ranges over all of [0, 2^zBits); hints by case
	ct := verifrt.Bytes("ct", sp.lambda/4)
	zv := make([]uint32, 256*sp.l)
	for i := range zv {
		zv[i] = sp.gamma1
	}
	// scenarios 0-2: the probed coefficient at the first / a middle / the last position, omega
	// hints; scenarios 3..: the other hint encodings with the probed coefficient in the middle
	nscen := 3 + 3
	if verifrt.Thorough() {
		nscen = 3 + 7
	}
	scen := verifrt.Choice("scen", nscen)
	zi, zj, hcase := sp.l/2, 131, 2
	switch {
	case scen == 0:
		zi, zj = 0, 0
	case scen == 2:
		zi, zj = sp.l-1, 255
	case scen >= 3:
		hcase = [...]int{0, 1, 3, 4, 5, 6, 7}[scen-3] // quick tier: none, omega in one polynomial, omega+1
	}
	v := verifrt.Uint32("v")
	verifrt.Assume(v < 1<<uint(sp.zBits))
	zv[256*zi+zj] = v
	hy := ctlHintCase(sp, hcase)
	sigma := append(append(append([]byte{}, ct...), specPackBits(zv, sp.zBits)...), hy...)
	verifrt.Assert(len(sigma) == sp.sigLen, "harness: signature length")

	var mu [64]byte
	copy(mu[:], verifrt.Bytes("mu", 64))
	zpi, zpj = zi, zj

	err := pk.VerifyWithMu(mu, sigma)

	// ---- the decision according to Algorithm 8
	h, hintOK := specHintUnpack(hy, sp.k, sp.omega)
	if !hintOK {
		verifrt.Assert(err != nil, "Verify rejects a malformed hint encoding (HintBitUnpack returned ⊥)")
		verifrt.Assert(len(t.nodes) == 0, "no kernel runs on an undecodable signature")
		verifrt.Reach("undecodable")
		return
	}
	// z = gamma1 - packed value; ||z||inf < gamma1 - beta  (strict)
	// i.e. -(gamma1 - beta) < gamma1 - v < gamma1 - beta, i.e. beta < v < 2 gamma1 - beta
	normOK := verifrt.And(v > sp.beta, v < 2*sp.gamma1-sp.beta)
	// w1' = UseHint(h, w'_approx); c~' = H(mu || w1Encode(w1'), lambda/4)
	w1 := make([][]uint32, sp.k)
	for i := range w1 {
		w1[i] = make([]uint32, 256)
		for j := range w1[i] {
			w1[i][j] = uint32(specUseHint(int32(h[i][j]), int32(wp[i][j]), int32(sp.gamma2)))
		}
	}
	ctp := shake256(sp.lambda/4, mu[:], specW1Encode(sp, w1))
	accept := verifrt.And(normOK, verifrt.EqBytes(ct, ctp))
	verifrt.Assert((err == nil) == accept, "Verify accepts iff ||z||inf < gamma1 - beta and c~ == H(mu || w1Encode(UseHint(h, w'_approx)), lambda/4)")

	// ---- data flow: w'_approx = NTT^-1( A^ * NTT(z) - NTT(c) * NTT(t1 * 2^d) )
	verifrt.Assert(t.count("intt") == 1 && t.count("expandA") == 1 && t.count("sampleInBall") == 1, "one NTT^-1, one ExpandA, one SampleInBall")
	root := t.find("intt", 0)
	verifrt.Assert(t.nodes[root].num == sp.k, "w'_approx has k polynomials")
	s := t.is(t.is(root, "intt", 1)[0], "vsub", 2)
	m := t.is(s[0], "mmul", 2)
	a := t.nodes[m[0]]
	verifrt.Assert(a.op == "expandA", "matrix is ExpandA(...)")
	verifrt.AssertEq(a.bytes, pk.rho[:], "ExpandA(rho of the public key)")
	zl := t.nodes[t.is(m[1], "vntt", 1)[0]]
	verifrt.Assert(zl.op == "leaf" && len(zl.vec) == sp.l, "A^ is multiplied by NTT(z), l polynomials")
	zok := true
	if len(zl.vec) == sp.l {
		for i := 0; i < sp.l; i++ {
			for j := 0; j < 256; j++ {
				want := (uint64(sp.gamma1) + q - uint64(zv[256*i+j])) % q
				zok = verifrt.And(zok, uint64(zl.vec[i][j]) == want)
			}
		}
	}
	verifrt.Assert(zok, "z = BitUnpack(sigma, gamma1 - 1, gamma1): coefficient = gamma1 - packed value (mod q)")
	sm := t.is(s[1], "smul", 2)
	cidx := t.is(sm[0], "pntt", 1)[0]
	verifrt.Assert(t.nodes[cidx].op == "sampleInBall", "the scalar is NTT(SampleInBall(...))")
	verifrt.AssertEq(t.nodes[cidx].bytes, ct, "SampleInBall(c~ of the signature, all lambda/4 bytes)")
	tl := t.nodes[t.is(sm[1], "vntt", 1)[0]]
	verifrt.Assert(tl.op == "leaf" && len(tl.vec) == sp.k, "the scalar multiplies NTT(t1 * 2^d), k polynomials")
	tok := true
	if len(tl.vec) == sp.k {
		for i := 0; i < sp.k; i++ {
			for j := 0; j < 256; j++ {
				tok = verifrt.And(tok, uint32(tl.vec[i][j]) == uint32(pk.t1[i][j])*8192)
			}
		}
	}
	verifrt.Assert(tok, "t1 * 2^d")
	verifrt.Assert(!t.bad, "data flow of Algorithm 8")
	if err == nil {
		verifrt.Reach("accepted")
	} else {
		verifrt.Reach("rejected")
	}
}

// ---- ML-DSA.Sign_internal (Algorithm 7): one loop iteration with chosen intermediate values

// specModQ: s mod q for s < 2q, stated relationally (no division, no branch): the unique m < q
// with m == s or m + q == s.
var specModCalls int

func specModQ(s uint32) uint32 {
	m := verifrt.Uint32("modq#" + itoa(specModCalls))
	specModCalls++
	verifrt.Assume(verifrt.And(m < specQ, verifrt.Or(m == s, m+specQ == s)))
	return m
}

type ctlIter struct {
	y, w, cs1, cs2, ct0 vector
}

// specHintPack: Algorithm 20
func specHintPack(h [][]uint32, omega int) []byte {
	y := make([]byte, omega+len(h))
	idx := 0
	for i := range h {
		for j := 0; j < 256; j++ {
			if h[i][j] != 0 {
				y[idx] = byte(j)
				idx++
			}
		}
		y[omega+i] = byte(idx)
	}
	return y
}

// ctlW: a concrete w whose low bits are small (|r0| <= 1000) and whose high bits sweep the range
func ctlW(sp *specParams, seed uint32) vector {
	w := makeZeroVector(sp.k)
	s := seed
	m := (specQ - 1) / (2 * sp.gamma2)
	for i := range w {
		for j := range w[i] {
			hi := ctlRand(&s, m)
			lo := ctlRand(&s, 2001)
			w[i][j] = rZq((uint64(hi)*uint64(2*sp.gamma2) + uint64(lo) + specQ - 1000) % specQ)
		}
	}
	return w
}

func VerifH_mldsa_sign_control_44() { ctlSign(0) }
func VerifH_mldsa_sign_control_65() { ctlSign(1) }
func VerifH_mldsa_sign_control_87() { ctlSign(2) }

func ctlSign(set int) {
	verifrt.EngineOnly()
	par, sp := sets[set], &specSets[set]
	t := &ctlTrace{}
	sk := &SecretKey{par: par, s1: makeZeroVector(par.l), s2: makeZeroVector(par.k), t0: makeZeroVector(par.k)}
	copy(sk.rho[:], verifrt.Bytes("rho", 32))
	copy(sk.kK[:], verifrt.Bytes("K", 32))
	var mu [64]byte
	copy(mu[:], verifrt.Bytes("mu", 64))
	var rnd [32]byte
	copy(rnd[:], verifrt.Bytes("rnd", 32))

	// iteration 2 (and later): values that pass every check
	pass := &ctlIter{y: makeZeroVector(sp.l), w: ctlW(sp, 5), cs1: makeZeroVector(sp.l), cs2: makeZeroVector(sp.k), ct0: makeZeroVector(sp.k)}
	// iteration 1: passing values too, except for what the scenario plants
	it1 := &ctlIter{y: ctlConstVector(sp.l, 3, 1000), w: ctlW(sp, 9), cs1: makeZeroVector(sp.l), cs2: makeZeroVector(sp.k), ct0: makeZeroVector(sp.k)}
	// scenarios 0-8: one arbitrary coefficient x in [0, q) in cs1 / cs2 / ct0 at the first / a
	// middle / the last position; 9-11: n = omega-1, omega, omega+1 hints
	// (quick tier: z first / last, r0 middle, ct0 last, omega and omega+1 hints)
	scen := 0
	if verifrt.Thorough() {
		scen = verifrt.Choice("scenT", 12)
	} else {
		scen = [...]int{0, 2, 4, 8, 10, 11}[verifrt.Choice("scen", 6)]
	}
	x := uint32(0)
	pi, pj := 0, 0
	nHints := 0
	if scen < 9 {
		x = verifrt.Uint32("x")
		verifrt.Assume(x < q)
		dim := sp.l
		if scen >= 3 {
			dim = sp.k
		}
		switch scen % 3 {
		case 1:
			pi, pj = dim/2, 131
		case 2:
			pi, pj = dim-1, 255
		}
		switch scen / 3 {
		case 0:
			it1.cs1[pi][pj] = rZq(x)
		case 1:
			it1.cs2[pi][pj] = rZq(x)
		default:
			it1.ct0[pi][pj] = rZq(x)
		}
	} else {
		// a hint appears where HighBits(w - cs2) != HighBits(w - cs2 + ct0): w - cs2 = gamma2 - beta - 1
		// (low bits just inside the bound), ct0 = beta + 2 (inside its bound) crosses gamma2
		nHints = sp.omega - 1 + (scen - 9)
		for n := 0; n < nHints; n++ {
			i, j := n%sp.k, 255-n/sp.k
			it1.w[i][j] = rZq(sp.gamma2 - sp.beta - 1)
			it1.ct0[i][j] = rZq(sp.beta + 2)
		}
	}
	iters := [2]*ctlIter{it1, pass}

	ctlStubBytesCompare()
	ctlStubNorm(func() (int, int) { return pi, pj })
	ctlStubAlgebra(t, par, func(arg int) vector {
		it := iters[min(t.iter, 1)]
		n := t.nodes[arg]
		switch n.op {
		case "mmul":
			return it.w
		case "smul":
			leaf := t.nodes[t.is(n.args[1], "vntt", 1)[0]]
			switch leaf.pv {
			case sk.s1[0]:
				return it.cs1
			case sk.s2[0]:
				return it.cs2
			case sk.t0[0]:
				return it.ct0
			}
		}
		t.bad = true
		return makeZeroVector(par.k)
	})
	t.iter = -1
	verifrt.Summarize("mldsa.params).expandMask", func(p *params, rho [64]byte, kappa int) vector {
		t.iter++
		if t.iter > 2 {
			verifrt.Assert(false, "Sign restarts although every check passes")
			verifrt.Assume(false)
		}
		y := iters[min(t.iter, 1)].y
		t.add(ctlNode{op: "expandMask", pv: y[0], bytes: append([]byte{}, rho[:]...), num: kappa})
		return y
	})

	sig := sk.signInternalWithMu(mu, rnd)

	// ---- the restart decision of iteration 1 (Algorithm 7, lines 21-28), signed arithmetic
	const half = (specQ - 1) / 2
	absLt := func(a uint32, b uint32) bool { // | a mod± q | < b
		return verifrt.Or(verifrt.And(a <= half, a < b), verifrt.And(a > half, specQ-a < b))
	}
	// the concrete background passes; what is decided is the planted coefficient
	accept1 := true
	hint1 := make([][]uint32, sp.k)
	for i := range hint1 {
		hint1[i] = make([]uint32, 256)
	}
	z1 := make([]uint32, 256*sp.l) // (y + cs1) mod q
	for i := 0; i < sp.l; i++ {
		for j := 0; j < 256; j++ {
			z1[256*i+j] = uint32(it1.y[i][j]) + uint32(it1.cs1[i][j])
			if i == pi && j == pj && scen < 3 {
				z1[256*i+j] = specModQ(z1[256*i+j])
			} else {
				z1[256*i+j] %= specQ
			}
			accept1 = verifrt.And(accept1, absLt(z1[256*i+j], sp.gamma1-sp.beta))
		}
	}
	ones := 0
	for i := 0; i < sp.k; i++ {
		for j := 0; j < 256; j++ {
			r := uint32(it1.w[i][j]) + specQ - uint32(it1.cs2[i][j]) // w - cs2
			planted := i == pi && j == pj && scen >= 3 && scen < 9
			if planted {
				r = specModQ(r)
			} else {
				r %= specQ
			}
			_, r0 := specDecompose(int32(r), int32(sp.gamma2))
			accept1 = verifrt.And(accept1, verifrt.And(r0 < int32(sp.gamma2-sp.beta), -r0 < int32(sp.gamma2-sp.beta)))
			c0 := uint32(it1.ct0[i][j])
			accept1 = verifrt.And(accept1, absLt(c0, sp.gamma2))
			// MakeHint(-ct0, w - cs2 + ct0) = [ HighBits(w - cs2 + ct0) != HighBits(w - cs2) ]
			rc := r + c0
			if planted {
				rc = specModQ(rc)
			} else {
				rc %= specQ
			}
			r1, _ := specDecompose(int32(rc), int32(sp.gamma2))
			v1, _ := specDecompose(int32(r), int32(sp.gamma2))
			if r1 != v1 {
				hint1[i][j] = 1
				ones++
			}
		}
	}
	accept1 = verifrt.And(accept1, ones <= sp.omega)

	nIter := t.count("expandMask")
	verifrt.Assert(nIter == 1 || nIter == 2, "one or two iterations")
	verifrt.Assert((nIter == 1) == accept1, "Sign accepts an iteration iff ||z||inf < gamma1 - beta, ||r0||inf < gamma2 - beta, ||ct0||inf < gamma2 and #hints <= omega (all strict / non-strict as in Algorithm 7); otherwise it restarts")

	// ---- ExpandMask(rho'', kappa): rho'' = H(K || rnd || mu, 64), kappa = 0, l, 2l ...
	rhopp := shake256(64, sk.kK[:], rnd[:], mu[:])
	for n := 0; n < nIter; n++ {
		e := t.nodes[t.find("expandMask", n)]
		verifrt.AssertEq(e.bytes, rhopp, "ExpandMask(H(K || rnd || mu, 64), .)")
		verifrt.Assert(e.num == n*sp.l, "kappa advances by l per iteration")
	}

	// ---- per iteration: w = NTT^-1(A^ * NTT(y)); c~ = H(mu || w1Encode(HighBits(w)), lambda/4); c = SampleInBall(c~)
	var ctLast []byte
	for n := 0; n < nIter; n++ {
		it := iters[n]
		var wn, cn = -1, -1
		for id := range t.nodes {
			nd := t.nodes[id]
			if nd.iter != n {
				continue
			}
			if nd.op == "intt" && t.nodes[nd.args[0]].op == "mmul" {
				wn = id
			}
			if nd.op == "sampleInBall" {
				cn = id
			}
		}
		verifrt.Assert(wn >= 0 && cn >= 0, "every iteration computes w and c")
		if wn < 0 || cn < 0 {
			continue
		}
		mm := t.is(t.nodes[wn].args[0], "mmul", 2)
		a := t.nodes[mm[0]]
		verifrt.Assert(a.op == "expandA", "matrix is ExpandA(...)")
		verifrt.AssertEq(a.bytes, sk.rho[:], "ExpandA(rho of the secret key)")
		yl := t.nodes[t.is(mm[1], "vntt", 1)[0]]
		verifrt.Assert(yl.op == "expandMask" && yl.iter == n, "A^ is multiplied by NTT(y) of this iteration")
		w1 := make([][]uint32, sp.k)
		for i := range w1 {
			w1[i] = make([]uint32, 256)
			for j := range w1[i] {
				r1, _ := specDecompose(int32(it.w[i][j]), int32(sp.gamma2))
				w1[i][j] = uint32(r1)
			}
		}
		ctWant := shake256(sp.lambda/4, mu[:], specW1Encode(sp, w1))
		verifrt.AssertEq(t.nodes[cn].bytes, ctWant, "c~ = H(mu || w1Encode(HighBits(w)), lambda/4) is what SampleInBall receives")
		ctLast = ctWant
		// every scalar product of this iteration uses NTT(c) of this iteration
		for id := range t.nodes {
			nd := t.nodes[id]
			if nd.iter == n && nd.op == "smul" {
				verifrt.Assert(t.is(nd.args[0], "pntt", 1)[0] == cn, "c * s1, c * s2, c * t0 use NTT(SampleInBall(c~)) of the same iteration")
			}
		}
	}
	verifrt.Assert(!t.bad, "data flow of Algorithm 7")

	// ---- the signature is sigEncode(c~, z, h) of the accepted iteration
	zf := make([]uint32, 256*sp.l)
	hf := make([][]uint32, sp.k)
	for i := range hf {
		hf[i] = make([]uint32, 256)
	}
	if nIter == 1 {
		for i := range zf {
			zf[i] = sp.gamma1 + specQ - z1[i]
			if i == 256*pi+pj && scen < 3 {
				zf[i] = specModQ(zf[i])
			} else {
				zf[i] %= specQ
			}
		}
		hf = hint1
	} else {
		for i := range zf {
			zf[i] = sp.gamma1 // z = 0
		}
	}
	want := append(append(append([]byte{}, ctLast...), specPackBits(zf, sp.zBits)...), specHintPack(hf, sp.omega)...)
	verifrt.AssertEq(sig, want, "signature == c~ || BitPack(z, gamma1 - 1, gamma1) || HintBitPack(h) of the accepted iteration")
	if nIter == 1 {
		verifrt.Reach("accepted-first")
	} else {
		verifrt.Reach("restarted")
	}
}
