package mldsa

import "github.com/tink-crypto/tink-go/v2/internal/verifrt"

// Second shim for the key-object harnesses of signature/mldsa: ML-DSA.KeyGen_internal as an
// UNINTERPRETED FUNCTION of (parameter set, seed), so that "the public key that belongs to
// this seed" is expressible (VerifInstallDispatchLog returns one fixed symbolic key pair).
//
//	pkEncode(KeyGen_internal_set(seed).pk) = MLDSA_PK_<set>(seed)   (FIPS 204 public key length)
//	skEncode(KeyGen_internal_set(seed).sk) = MLDSA_SK_<set>(seed)   (FIPS 204 secret key length)

// VerifPublicKeyOfSeed / VerifExpandedKeyOfSeed: the encodings the summaries below hand out
// for the exported parameter set of that name ("MLDSA44", "MLDSA65", "MLDSA87").
func VerifPublicKeyOfSeed(set string, seed []byte) []byte {
	return verifrt.UF("MLDSA_PK_"+set, verifSetByName(set).PublicKeyLength(), seed)
}

func VerifExpandedKeyOfSeed(set string, seed []byte) []byte {
	return verifrt.UF("MLDSA_SK_"+set, verifSetByName(set).SecretKeyLength(), seed)
}

func verifSetByName(set string) *params {
	switch set {
	case "MLDSA44":
		return MLDSA44
	case "MLDSA65":
		return MLDSA65
	case "MLDSA87":
		return MLDSA87
	}
	panic("unknown ML-DSA parameter set name")
}

// VerifInstallKeyGenUF installs the summaries (engine only). The generated key objects carry
// the seed (the public key in its rho field, which the summaries of Encode read back); every
// call is appended to *log as "KeyGenFromSeed:<set>" with the seed.
func VerifInstallKeyGenUF(log *[]VerifDispatchRecord) {
	verifrt.Summarize("mldsa.params).KeyGenFromSeed", func(pp *params, seed [SecretKeySeedSize]byte) (*PublicKey, *SecretKey) {
		s := seed
		*log = append(*log, VerifDispatchRecord{Call: "KeyGenFromSeed:" + verifParamsName(pp), Arg: append([]byte{}, s[:]...)})
		return &PublicKey{par: pp, rho: s}, &SecretKey{par: pp, seed: &s}
	})
	verifrt.Summarize("mldsa.PublicKey).Encode", func(pk *PublicKey) []byte {
		return VerifPublicKeyOfSeed(verifParamsName(pk.par), pk.rho[:])
	})
	verifrt.Summarize("mldsa.SecretKey).Encode", func(sk *SecretKey) []byte {
		return VerifExpandedKeyOfSeed(verifParamsName(sk.par), sk.seed[:])
	})
}
