package mldsa

import (
	"github.com/tink-crypto/tink-go/v2/internal/verifrt"
)

// The mu level of ML-DSA (FIPS 204 Algorithms 2, 3, 7, 8): Sign / Verify are SignWithMu /
// VerifyWithMu applied to mu = H(tr || M', 64), M' = 0 || len(ctx) || ctx || M. The internal
// mu-level signer is replaced by an uninterpreted function of (key, mu, rnd) and the mu-level
// verifier by a recording stub; the exported helpers below install the same stubs for the
// harnesses of signprehash/mldsa (the types of the stubbed methods are not nameable there).

// VerifMuRecord is what the mu-level stubs saw.
type VerifMuRecord struct {
	SignMu, SignTr, VerifyMu, VerifyTr [][]byte
	SignRnd, SignOut, VerifySig        [][]byte
}

// VerifStubMuLevel replaces signInternalWithMu by SIG(K, tr, mu, rnd) (uninterpreted, n bytes)
// and verifyInternalWithMu by a stub that records its arguments and accepts.
func VerifStubMuLevel(rec *VerifMuRecord, n int) {
	verifrt.Summarize("mldsa.SecretKey).signInternalWithMu", func(sk *SecretKey, mu [64]byte, rnd [32]byte) []byte {
		out := verifrt.UF("MLDSA_SIG", n, sk.kK[:], sk.tr[:], mu[:], rnd[:])
		rec.SignMu = append(rec.SignMu, append([]byte{}, mu[:]...))
		rec.SignTr = append(rec.SignTr, append([]byte{}, sk.tr[:]...))
		rec.SignRnd = append(rec.SignRnd, append([]byte{}, rnd[:]...))
		rec.SignOut = append(rec.SignOut, out)
		return out
	})
	verifrt.Summarize("mldsa.PublicKey).verifyInternalWithMu", func(pk *PublicKey, mu [64]byte, sigma []byte) error {
		rec.VerifyMu = append(rec.VerifyMu, append([]byte{}, mu[:]...))
		rec.VerifyTr = append(rec.VerifyTr, append([]byte{}, pk.tr[:]...))
		rec.VerifySig = append(rec.VerifySig, append([]byte{}, sigma...))
		return nil
	})
}

// VerifStubKeyGen replaces KeyGen_internal by a deterministic, uninterpreted function of
// (parameter set, seed) that keeps the one relation the mu level relies on:
// tr = H(pkEncode(rho, t1), 64) in both keys (Algorithm 6, line 9).
func VerifStubKeyGen() {
	verifrt.Summarize("mldsa.params).keyGenInternal", func(par *params, seed [SecretKeySeedSize]byte) (*PublicKey, *SecretKey) {
		tag := []byte{byte(par.k), byte(par.l)}
		pk := &PublicKey{par: par, t1: makeZeroVector(par.k)}
		copy(pk.rho[:], verifrt.UF("MLDSA_KG_RHO", 32, seed[:], tag))
		// two arbitrary t1 coefficients (10 bits)
		u := verifrt.UF("MLDSA_KG_T1", 4, seed[:], tag)
		pk.t1[0][0] = rZq(uint32(u[0]) | uint32(u[1]&3)<<8)
		pk.t1[par.k-1][255] = rZq(uint32(u[2]) | uint32(u[3]&3)<<8)
		copy(pk.tr[:], shake256(64, pk.Encode()))
		sk := &SecretKey{rho: pk.rho, tr: pk.tr, s1: makeZeroVector(par.l), s2: makeZeroVector(par.k), t0: makeZeroVector(par.k), seed: &seed, par: par}
		copy(sk.kK[:], verifrt.UF("MLDSA_KG_K", 32, seed[:], tag))
		return pk, sk
	})
}

func VerifH_mldsa_mu_paths() {
	verifrt.EngineOnly()
	par, _ := ctlSet()
	rec := &VerifMuRecord{}
	VerifStubMuLevel(rec, 16)
	sk := &SecretKey{par: par}
	copy(sk.tr[:], verifrt.Bytes("tr", 64))
	copy(sk.kK[:], verifrt.Bytes("K", 32))
	pk := &PublicKey{par: par, tr: sk.tr}
	m := verifrt.Bytes("m", verifrt.Choice("ml", 3))
	ctx := verifrt.Bytes("ctx", verifrt.Choice("cl", 3))
	mp := append(append([]byte{0, byte(len(ctx))}, ctx...), m...)
	var mu [64]byte
	copy(mu[:], shake256(64, sk.tr[:], mp))

	// deterministic signing: byte-identical through both entry points
	s1, err := sk.SignDeterministic(m, ctx)
	verifrt.Assert(err == nil, "SignDeterministic succeeds")
	s2 := sk.SignDeterministicWithMu(mu)
	verifrt.AssertEq(s1, s2, "SignDeterministic(M, ctx) == SignDeterministicWithMu(H(tr || 0 || len(ctx) || ctx || M, 64))")
	verifrt.AssertEq(rec.SignMu[0], mu[:], "Sign_internal: mu = H(tr || M', 64)")
	verifrt.AssertEq(rec.SignRnd[0], make([]byte, 32), "deterministic variant: rnd = 0^32")
	verifrt.AssertEq(rec.SignRnd[1], make([]byte, 32), "deterministic mu variant: rnd = 0^32")

	// hedged signing: same mu, the drawn rnd
	d0 := verifrt.Draws()
	s3, err := sk.Sign(m, ctx)
	verifrt.Assert(err == nil && verifrt.Draws() == d0+1, "Sign succeeds with one draw")
	verifrt.AssertEq(rec.SignMu[2], mu[:], "Sign: mu = H(tr || M', 64)")
	verifrt.AssertEq(rec.SignRnd[2], verifrt.DrawBytes(d0), "Sign: rnd is the draw")
	s4 := sk.SignWithMu(mu)
	verifrt.AssertEq(rec.SignMu[3], mu[:], "SignWithMu passes mu on")
	verifrt.AssertEq(rec.SignRnd[3], verifrt.DrawBytes(d0+1), "SignWithMu: rnd is the draw")

	// verification: Verify(M, sigma, ctx) is VerifyWithMu(H(tr || M'), sigma), for signatures of either path
	for i, s := range [][]byte{s1, s3, s4} {
		verifrt.Assert(pk.Verify(m, s, ctx) == nil, "stubbed verifier accepts")
		verifrt.AssertEq(rec.VerifyMu[2*i], mu[:], "Verify_internal: mu = H(tr || M', 64)")
		verifrt.AssertEq(rec.VerifySig[2*i], s, "Verify hands the signature on unchanged")
		verifrt.Assert(pk.VerifyWithMu(mu, s) == nil, "stubbed verifier accepts")
		verifrt.AssertEq(rec.VerifyMu[2*i+1], rec.VerifyMu[2*i], "VerifyWithMu(mu) checks the same mu as Verify(M, ctx)")
		verifrt.AssertEq(rec.VerifySig[2*i+1], s, "VerifyWithMu hands the signature on unchanged")
	}
	verifrt.Assert(len(rec.SignMu) == 4 && len(rec.VerifyMu) == 6, "one internal call per API call")
	verifrt.Reach("end")
}

// tr of a decoded public key is H(pk bytes, 64) and rho its first 32 bytes (Algorithm 23 and
// the caching the mu computation relies on); key generation and both decoders agree on tr.
func VerifH_mldsa_tr() {
	par, sp := ctlSet()
	enc := make([]byte, sp.pkLen)
	copy(enc, verifrt.Bytes("rho", 32))
	// arbitrary bytes at the start, in the middle and at the end of the t1 part
	for _, o := range [...]int{32, 33, sp.pkLen / 2, sp.pkLen - 1} {
		enc[o] = verifrt.Byte("t1." + itoa(o))
	}
	pk, err := par.DecodePublicKey(enc)
	verifrt.Assert(err == nil, "DecodePublicKey accepts the Table 2 length")
	verifrt.AssertEq(pk.tr[:], shake256(64, enc), "tr == H(pk, 64)")
	tr := pk.TR()
	verifrt.AssertEq(tr[:], pk.tr[:], "TR() returns tr")
	verifrt.AssertEq(pk.rho[:], enc[:32], "rho == pk[0:32]")
	verifrt.AssertEq(pk.Encode(), enc, "pkEncode(pkDecode(pk)) == pk")
	// skDecode: rho, K, tr at offsets 0, 32, 64
	skEnc := make([]byte, sp.skLen)
	copy(skEnc, verifrt.Bytes("skhead", 128))
	sk, err := par.DecodeSecretKey(skEnc)
	verifrt.Assert(err == nil, "DecodeSecretKey accepts the Table 2 length")
	verifrt.AssertEq(sk.rho[:], skEnc[:32], "sk: rho")
	verifrt.AssertEq(sk.kK[:], skEnc[32:64], "sk: K")
	verifrt.AssertEq(sk.tr[:], skEnc[64:128], "sk: tr")
	verifrt.Reach("end")
}
