package mldsa

import (
	"golang.org/x/crypto/sha3"

	"github.com/tink-crypto/tink-go/v2/internal/verifrt"
)

// NTT structure (FIPS 204 section 2.5, Algorithms 41-42) and the rejection samplers
// (Algorithms 29-31) - without symbolic multiplication.

func specBitRev8(n int) int {
	r := 0
	for i := 0; i < 8; i++ {
		r |= ((n >> uint(i)) & 1) << uint(7-i)
	}
	return r
}

func specPow(b uint64, e int) uint64 {
	r := uint64(1)
	for ; e > 0; e >>= 1 {
		if e&1 == 1 {
			r = r * b % specQ
		}
		b = b * b % specQ
	}
	return r
}

// the zetas table: zetas[k] = 1753^BitRev8(k) mod q, k = 1..255 (Algorithm 41 line 5 / appendix B)
func VerifH_mldsa_zetas() {
	verifrt.Assert(zetas[0] == 0, "zetas[0] is the unused entry 0")
	// powers of zeta
	var pw [256]uint64
	pw[0] = 1
	for i := 1; i < 256; i++ {
		pw[i] = pw[i-1] * 1753 % specQ
	}
	ok := true
	for k := 1; k < 256; k++ {
		if uint64(zetas[k]) != pw[specBitRev8(k)] {
			ok = false
		}
	}
	verifrt.Assert(ok, "zetas[k] == 1753^BitRev8(k) mod q for k = 1..255")
	verifrt.Assert(pw[255]*1753%specQ == specQ-1, "1753^256 == -1: a primitive 512th root of unity")
	verifrt.Reach("end")
}

// specRoots: the evaluation points of FIPS 204 section 2.5:
// NTT(w) = (w(z_0), w(-z_0), ..., w(z_127), w(-z_127)), z_i = zeta^BitRev8(128 + i)
func specRoots() (r [256]uint64) {
	for i := 0; i < 128; i++ {
		r[2*i] = specPow(1753, specBitRev8(128+i))
		r[2*i+1] = specQ - r[2*i]
	}
	return
}

// NTT and NTT^-1 are Z_q-linear maps: their control flow does not depend on the data and every
// data operation is rZq.add / sub / mul by a constant, which VerifH_mldsa_addsubneg and
// VerifH_mldsa_mul prove equal to the ring operations for all operands. A linear map is
// determined by its values on the unit vectors: checking all 256 of them against the
// definition (evaluation at the 256 roots, resp. interpolation) decides NTT == definition for
// every input. Concrete execution only.
func VerifH_mldsa_ntt_units() {
	roots := specRoots()
	var rinv [256]uint64
	for j := range roots {
		rinv[j] = specPow(roots[j], 511) // r^512 == 1
		verifrt.Assert(rinv[j]*roots[j]%specQ == 1, "harness: inverse roots")
	}
	// the 256 unit vectors in four chunks (instruction budget per path)
	chunk := verifrt.Choice("chunk", 4)
	okF, okI := true, true
	for n := 64 * chunk; n < 64*chunk+64; n++ {
		var e poly
		e[n] = 1
		got := e.ntt()
		// NTT(X^n)[j] = r_j^n
		for j := 0; j < 256; j++ {
			if uint64(got[j]) != specPow(roots[j], n) {
				okF = false
			}
		}
		var f polyNTT
		f[n] = 1
		back := f.intt()
		// NTT^-1(e_n)[i] = 256^-1 * r_n^-i
		p := uint64(8347681)
		for i := 0; i < 256; i++ {
			if uint64(back[i]) != p {
				okI = false
			}
			p = p * rinv[n] % specQ
		}
	}
	verifrt.Assert(okF, "NTT(X^n)[j] == r_j^n for all n, j (NTT == evaluation at the roots of X^256 + 1, in the order of section 2.5)")
	verifrt.Assert(okI, "NTT^-1(e_n)[i] == r_n^-i / 256 for all n, i (NTT^-1 == interpolation)")
	verifrt.Reach("end")
}

// Concrete polynomials: NTT^-1(NTT(a)) == a, and NTT^-1(NTT(a) o NTT(b)) == a * b in
// Z_q[X]/(X^256 + 1) computed by the O(n^2) definition.
func VerifH_mldsa_ntt_product() {
	s := uint32(12345)
	var a, b poly
	for i := range a {
		a[i] = rZq(ctlRand(&s, specQ))
		b[i] = rZq(ctlRand(&s, specQ))
	}
	a[0], a[255], b[0], b[255] = specQ-1, specQ-1, specQ-1, 1
	ah, bh := a.ntt(), b.ntt()
	back := ah.intt()
	ok := true
	for i := range a {
		if back[i] != a[i] {
			ok = false
		}
	}
	verifrt.Assert(ok, "NTT^-1(NTT(a)) == a")
	var want [256]uint64
	for i := 0; i < 256; i++ {
		for j := 0; j < 256; j++ {
			p := uint64(a[i]) * uint64(b[j]) % specQ
			if i+j < 256 {
				want[i+j] = (want[i+j] + p) % specQ
			} else {
				want[i+j-256] = (want[i+j-256] + specQ - p) % specQ
			}
		}
	}
	prod := ah.mul(bh).intt()
	ok = true
	for i := range prod {
		if uint64(prod[i]) != want[i] {
			ok = false
		}
	}
	verifrt.Assert(ok, "NTT^-1(NTT(a) o NTT(b)) == a * b mod (X^256 + 1)")
	// the matrix-vector product is the sum of the entrywise products
	A := matrixNTT{{ah, bh}, {bh, ah}}
	v := vectorNTT{bh, ah}
	r := A.mul(v)
	okM := true
	for i := 0; i < 256; i++ {
		x, y := uint64(ah[i]), uint64(bh[i])
		if uint64(r[0][i]) != (2*x*y)%specQ || uint64(r[1][i]) != (x*x+y*y)%specQ {
			okM = false
		}
	}
	verifrt.Assert(okM && len(r) == 2, "matrixNTT.mul: row i = sum_j A[i][j] o v[j]")
	verifrt.Reach("end")
}

// One Cooley-Tukey butterfly as the loop body of ntt() composes it (t = zeta * b; hi = a - t;
// lo = a + t) for arbitrary a, b and a table entry zeta: (lo, hi) == (a + zeta b, a - zeta b)
// mod q. As in VerifH_mldsa_mul the 46-bit product inside rZq.mul is cut (it ranges over all of
// [0, (q-1)^2]) and reduceOnce is replaced by its proven specification. (Pushing symbolic
// coefficients through the whole of ntt() - eight layers of chained reductions - is beyond
// every solver of the portfolio; the transform as a whole is decided by VerifH_mldsa_ntt_units.)
func VerifH_mldsa_ntt_butterfly() {
	a := verifrt.Uint32("a")
	b := verifrt.Uint32("b")
	verifrt.Assume(a < q && b < q)
	z := zetas[1]
	verifrt.Summarize("mldsa.rZq).reduceOnce", func(x rZq) rZq {
		verifrt.Assert(uint32(x) < 2*q, "reduceOnce summary precondition: argument < 2q")
		if uint32(x) >= q {
			return x - q
		}
		return x
	})
	verifrt.CutNext("prod", 0, (q-1)*(q-1))
	verifrt.Tag("arith")
	t := z.mul(rZq(b))
	p := verifrt.CutValueOr("prod", uint64(z)*uint64(b))
	// t == p mod q (the form the integer back end decides quickly, as in VerifH_mldsa_mul), and
	// lo, hi are a +- t reduced once: together lo == a + zeta b, hi == a - zeta b (mod q)
	verifrt.Assert(uint32(t) < q && uint64(t) <= p && (p-uint64(t))%q == 0, "t == zeta * b mod q")
	hi := rZq(a).sub(t)
	lo := rZq(a).add(t)
	verifrt.Assert(uint32(lo) < q && uint32(hi) < q, "butterfly outputs in range")
	verifrt.Assert(verifrt.Or(uint32(lo) == a+uint32(t), uint32(lo)+q == a+uint32(t)), "lo == a + t mod q")
	verifrt.Assert(verifrt.Or(uint32(hi)+uint32(t) == a, uint32(hi)+uint32(t) == a+q), "hi == a - t mod q")
	verifrt.Reach("end")
}

// ---- rejection samplers on a chosen XOF output stream with one symbolic group

type ctlStream struct {
	in  []byte
	out []byte
	pos int
}

func (s *ctlStream) Write(p []byte) (int, error) { s.in = append(s.in, p...); return len(p), nil }
func (s *ctlStream) Read(p []byte) (int, error) {
	for i := range p {
		p[i] = s.out[s.pos]
		s.pos++
	}
	return len(p), nil
}
func (s *ctlStream) Sum(b []byte) []byte   { panic("unused") }
func (s *ctlStream) Reset()                { panic("unused") }
func (s *ctlStream) Size() int             { return 32 }
func (s *ctlStream) BlockSize() int        { return 136 }
func (s *ctlStream) Clone() sha3.ShakeHash { panic("unused") }

func ctlStreamBytes(n int, seed uint32) []byte {
	out := make([]byte, n)
	s := seed
	for i := range out {
		out[i] = byte(ctlRand(&s, 256))
	}
	return out
}

// RejectNTTPoly (Algorithm 30) with CoeffFromThreeBytes (Algorithm 14): the top bit of the
// third byte is cleared, the 23-bit value is accepted iff < q, rejected groups are skipped,
// groups are consumed across the 168-byte squeeze blocks.
func VerifH_mldsa_rejectNTTPoly() {
	verifrt.EngineOnly()
	st := &ctlStream{out: ctlStreamBytes(6*168, 77)}
	// some concrete rejections: 0x7fffff and q itself (with and without the ignored top bit)
	copy(st.out[3*10:], []byte{0xff, 0xff, 0xff})
	copy(st.out[3*57:], []byte{0x01, 0xe0, 0x7f})
	copy(st.out[3*58:], []byte{0x00, 0xe0, 0xff}) // q - 1 with top bit set: accepted
	g := [...]int{0, 55, 56, 200, 257}[verifrt.Choice("group", 5)]
	copy(st.out[3*g:], verifrt.Bytes("b", 3))
	verifrt.Summarize("sha3.NewShake128", func() sha3.ShakeHash { return st })
	var rho [34]byte
	copy(rho[:], verifrt.Bytes("rho", 34))
	got := rejectNTTPoly(rho)
	verifrt.AssertEq(st.in, rho[:], "G absorbs exactly the 34-byte seed")
	// Algorithm 30 / 14
	var want [256]uint32
	j := 0
	used := 0
	for c := 0; j < 256; c += 3 {
		b0, b1, b2 := st.out[c], st.out[c+1], st.out[c+2]
		if b2 > 127 {
			b2 -= 128
		}
		z := 65536*uint32(b2) + 256*uint32(b1) + uint32(b0)
		if z < specQ {
			want[j] = z
			j++
		}
		used = c + 3
	}
	ok := true
	for i := range want {
		ok = verifrt.And(ok, uint32(got[i]) == want[i])
	}
	verifrt.Assert(ok, "RejectNTTPoly == the first 256 accepted CoeffFromThreeBytes values of the stream")
	verifrt.Assert(st.pos >= used && st.pos%168 == 0, "squeezed in 168-byte blocks, at least what was needed")
	verifrt.Reach("end")
}

// RejectBoundedPoly (Algorithm 31): low nibble first, then high nibble; CoeffFromHalfByte.
func VerifH_mldsa_rejectBoundedPoly() {
	verifrt.EngineOnly()
	par, sp := ctlSet()
	st := &ctlStream{out: ctlStreamBytes(1024, 99)}
	g := [...]int{0, 1, 100}[verifrt.Choice("byte", 3)]
	st.out[g] = verifrt.Byte("b")
	verifrt.Summarize("sha3.NewShake256", func() sha3.ShakeHash { return st })
	var rho [66]byte
	copy(rho[:], verifrt.Bytes("rho", 66))
	got := par.rejectBoundedPoly(rho)
	verifrt.AssertEq(st.in, rho[:], "H absorbs exactly the 66-byte seed")
	half := func(b byte) (uint32, bool) { // Algorithm 15, result mod q
		if sp.eta == 2 && b < 15 {
			return (2 + specQ - uint32(b%5)) % specQ, true
		}
		if sp.eta == 4 && b < 9 {
			return (4 + specQ - uint32(b)) % specQ, true
		}
		return 0, false
	}
	var want [256]uint32
	j := 0
	for c := 0; j < 256; c++ {
		z := st.out[c]
		z0, ok0 := half(z % 16)
		z1, ok1 := half(z / 16)
		if ok0 {
			want[j] = z0
			j++
		}
		if ok1 && j < 256 {
			want[j] = z1
			j++
		}
	}
	ok := true
	for i := range want {
		ok = verifrt.And(ok, uint32(got[i]) == want[i])
	}
	verifrt.Assert(ok, "RejectBoundedPoly == the first 256 accepted CoeffFromHalfByte values, low nibble first")
	verifrt.Reach("end")
}

// SampleInBall (Algorithm 29) at the real tau: sign bits from the first 8 bytes (little
// endian, bit i + tau - 256 for position i), index rejection j > i, the swap c_i = c_j; c_j = +-1.
func VerifH_mldsa_sampleInBall() {
	verifrt.EngineOnly()
	par, sp := ctlSet()
	st := &ctlStream{out: ctlStreamBytes(2048, 31)}
	// one arbitrary sign byte and one arbitrary index byte
	sb := 0
	if verifrt.Thorough() {
		sb = verifrt.Choice("signbyteT", 8)
	} else {
		sb = [...]int{0, 4, 7}[verifrt.Choice("signbyte", 3)]
	}
	st.out[sb] = verifrt.Byte("s")
	ib := [...]int{8, 9, 30}[verifrt.Choice("idxbyte", 3)]
	st.out[ib] = verifrt.Byte("j")
	verifrt.Summarize("sha3.NewShake256", func() sha3.ShakeHash { return st })
	rho := verifrt.Bytes("ct", sp.lambda/4)
	got := par.sampleInBall(rho)
	verifrt.AssertEq(st.in, rho, "H absorbs exactly c~ (lambda/4 bytes)")
	// Algorithm 29
	var c [256]uint32
	pos := 8
	for i := 256 - sp.tau; i < 256; i++ {
		j := st.out[pos]
		pos++
		for int(j) > i {
			j = st.out[pos]
			pos++
		}
		c[i] = c[j]
		bit := i + sp.tau - 256
		h := (st.out[bit/8] >> uint(bit%8)) & 1
		c[j] = (1 + specQ - 2*uint32(h)) % specQ // (-1)^h mod q
	}
	ok := true
	for i := range c {
		ok = verifrt.And(ok, uint32(got[i]) == c[i])
	}
	verifrt.Assert(ok, "SampleInBall == Algorithm 29 on the same stream")
	verifrt.Reach("end")
}
