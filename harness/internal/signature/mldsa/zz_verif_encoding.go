package mldsa

import (
	"golang.org/x/crypto/sha3"

	"github.com/tink-crypto/tink-go/v2/internal/verifrt"
)

var sets = [...]*params{MLDSA44, MLDSA65, MLDSA87}

func pickSet() *params { return sets[verifrt.Choice("set", 3)] }

func symPoly(name string, bound uint32) *poly {
	p := &poly{}
	ok := true
	for i := range p {
		c := verifrt.Uint32(name + "." + itoa(i))
		ok = verifrt.And(ok, c <= bound)
		p[i] = rZq(c)
	}
	verifrt.Assume(ok)
	return p
}

func itoa(i int) string {
	if i == 0 {
		return "0"
	}
	var b []byte
	for i > 0 {
		b = append([]byte{byte('0' + i%10)}, b...)
		i /= 10
	}
	return string(b)
}

// specBit: bit i of a little-endian bit string (FIPS 204 BytesToBits).
func specBit(y []byte, i int) uint32 { return uint32(y[i/8]>>uint(i%8)) & 1 }

type packCase struct {
	bits int
	a    uint32 // BitPack offset (upper bound b); 0 = SimpleBitPack
	max  uint32 // largest coefficient value packed
}

// every (bits, range) pair the three parameter sets use
var packCases = [...]packCase{
	{10, 0, 1023},           // t1
	{13, 1 << 12, 1<<13 - 1}, // t0: BitPack(t0, 2^12-1, 2^12) -> value 2^12 - c in [0, 2^13-1]
	{3, 2, 4},               // eta = 2
	{4, 4, 8},               // eta = 4
	{18, 1 << 17, 1<<18 - 1}, // z, gamma1 = 2^17
	{20, 1 << 19, 1<<20 - 1}, // z, gamma1 = 2^19
	{6, 0, 43},              // w1, gamma2 = (q-1)/88
	{4, 0, 15},              // w1, gamma2 = (q-1)/32
}

// SimpleBitPack / BitPack (Algorithms 16, 17): output bit i is bit (i mod b) of the
// (offset-adjusted) coefficient floor(i/b); unpacking inverts packing.
func VerifH_mldsa_pack_0() { mldsaPack(0) }
func VerifH_mldsa_pack_1() { mldsaPack(1) }
func VerifH_mldsa_pack_2() { mldsaPack(2) }
func VerifH_mldsa_pack_3() { mldsaPack(3) }
func VerifH_mldsa_pack_4() { mldsaPack(4) }
func VerifH_mldsa_pack_5() { mldsaPack(5) }
func VerifH_mldsa_pack_6() { mldsaPack(6) }
func VerifH_mldsa_pack_7() { mldsaPack(7) }

func mldsaPack(which int) {
	c := packCases[which]
	// coefficients as the code stores them: values in [0, max] for SimpleBitPack, and for
	// BitPack any w in Z_q with a - w in [0, 2^bits): the packed value is (a - w) mod q
	var p *poly
	if c.a == 0 {
		p = symPoly("p", c.max)
	} else {
		p = &poly{}
		vals := symPoly("v", c.max) // the packed (non-negative) values a - w
		for i := range p {
			p[i] = rZq(c.a).sub(vals[i])
		}
	}
	var enc []byte
	if c.a == 0 {
		enc = p.simpleBitPack(c.bits)
	} else {
		enc = p.bitPack(rZq(c.a), c.bits)
	}
	verifrt.Assert(len(enc) == 32*c.bits, "encoded length = 32 * bitlen")
	bitsOK := true
	for i := 0; i < 256*c.bits; i++ {
		var val uint32
		if c.a == 0 {
			val = uint32(p[i/c.bits])
		} else {
			val = uint32(rZq(c.a).sub(p[i/c.bits]))
		}
		bitsOK = verifrt.And(bitsOK, specBit(enc, i) == (val>>uint(i%c.bits))&1)
	}
	verifrt.Assert(bitsOK, "every packed bit i == bit (i mod b) of coefficient floor(i/b)")
	var back *poly
	if c.a == 0 {
		back = simpleBitUnpackPoly(enc, c.bits)
	} else {
		back = bitUnpackPoly(enc, rZq(c.a), c.bits)
	}
	for i := range p {
		verifrt.Assert(back[i] == p[i], "unpack(pack(p)) == p")
	}
	verifrt.Reach("end")
}

// Unpack then pack is the identity on arbitrary bytes (no two encodings of one polynomial).
func VerifH_mldsa_unpack_pack() {
	c := packCases[verifrt.Choice("case", len(packCases))]
	y := verifrt.Bytes("y", 32*c.bits)
	var enc []byte
	if c.a == 0 {
		enc = simpleBitUnpackPoly(y, c.bits).simpleBitPack(c.bits)
	} else {
		enc = bitUnpackPoly(y, rZq(c.a), c.bits).bitPack(rZq(c.a), c.bits)
	}
	verifrt.AssertEq(enc, y, "pack(unpack(y)) == y")
	// NTT-domain copies agree with the plain ones
	if c.a == 0 {
		a, b := simpleBitUnpackPoly(y, c.bits), simpleBitUnpackPolyNTT(y, c.bits)
		for i := range a {
			verifrt.Assert(a[i] == b[i], "polyNTT unpack == poly unpack")
		}
	}
	verifrt.Reach("end")
}

// ---- hint coding at reduced parameters (the loops are parametric in k and omega)

func specHintUnpack(y []byte, k, omega int) (h [][256]byte, ok bool) {
	// Algorithm 21
	h = make([][256]byte, k)
	index := 0
	for i := 0; i < k; i++ {
		end := int(y[omega+i])
		if end < index || end > omega {
			return nil, false
		}
		first := index
		for index < end {
			if index > first && y[index-1] >= y[index] {
				return nil, false
			}
			h[i][y[index]] = 1
			index++
		}
	}
	for i := index; i < omega; i++ {
		if y[i] != 0 {
			return nil, false
		}
	}
	return h, true
}

func VerifH_mldsa_hint_unpack() {
	k, omega := 2, 3
	if verifrt.Thorough() {
		omega = 4
	}
	par := &params{k: k, omega: omega}
	y := verifrt.Bytes("y", omega+k)
	verifrt.Unwind(64)
	got, err := par.hintBitUnpackVector(y)
	want, ok := specHintUnpack(y, k, omega)
	verifrt.Assert((err == nil) == ok, "HintBitUnpack accepts exactly the strictly increasing, zero-padded encodings (Algorithm 21)")
	if err == nil && ok {
		same := true
		for i := 0; i < k; i++ {
			for j := 0; j < 256; j++ {
				same = verifrt.And(same, uint32(got[i][j]) == uint32(want[i][j]))
			}
		}
		verifrt.Assert(same, "decoded hint bits == Algorithm 21")
		verifrt.Reach("accepted")
	} else {
		verifrt.Reach("rejected")
	}
}

// HintBitPack (Algorithm 20) on hint vectors with at most omega ones, and unpack(pack(h)) == h.
func VerifH_mldsa_hint_pack() {
	k, omega := 2, 3
	par := &params{k: k, omega: omega}
	pos := [...]int{0, 1, 7, 200, 255}
	h := makeZeroVector(k)
	total := 0
	var want []byte
	var ends []byte
	for i := 0; i < k; i++ {
		// a subset of the candidate positions, chosen by the solver-independent case split
		mask := verifrt.Choice("mask"+itoa(i), 1<<len(pos))
		for b, p := range pos {
			if mask>>uint(b)&1 == 1 {
				h[i][p] = 1
				want = append(want, byte(p))
				total++
			}
		}
		ends = append(ends, byte(total))
	}
	verifrt.Assume(total <= omega)
	for len(want) < omega {
		want = append(want, 0)
	}
	enc := h.hintBitPack(par)
	verifrt.AssertEq(enc, append(want, ends...), "HintBitPack == positions in increasing order, zero padding, cumulative counts (Algorithm 20)")
	back, err := par.hintBitUnpackVector(enc)
	verifrt.Assert(err == nil, "HintBitUnpack accepts HintBitPack output")
	for i := 0; i < k; i++ {
		for j := 0; j < 256; j++ {
			verifrt.Assert(back[i][j] == h[i][j], "unpack(pack(h)) == h")
		}
	}
	verifrt.Reach("end")
}

// ---- SHAKE input framing of ExpandMask / ExpandA / ExpandS

// ExpandMask (Algorithm 34): y[r] = BitUnpack(H(rho || IntegerToBytes(mu + r, 2), 32 c), ...)
func VerifH_mldsa_expandMask() {
	par := pickSet()
	var rho [64]byte
	copy(rho[:], verifrt.Bytes("rho", 64))
	mu := verifrt.IntRange("mu", 0, 65535-par.l)
	got := par.expandMask(rho, mu)
	verifrt.Assert(len(got) == par.l, "l polynomials")
	c := par.log2Gamma1 + 1
	for r := 0; r < par.l; r++ {
		n := uint16(mu + r)
		in := append(append([]byte{}, rho[:]...), byte(n), byte(n>>8))
		v := make([]byte, 32*c)
		sha3.ShakeSum256(v, in)
		want := bitUnpackPoly(v, rZq(1<<par.log2Gamma1), c)
		for j := 0; j < 256; j += 51 {
			verifrt.Assert(got[r][j] == want[j], "ExpandMask: polynomial r comes from H(rho || le16(mu + r))")
		}
	}
	verifrt.Reach("end")
}

// ExpandA / ExpandS: which 34- / 66-byte strings are handed to the rejection samplers.
func VerifH_mldsa_expandA_S() {
	verifrt.EngineOnly()
	par := pickSet()
	var seenA [][34]byte
	var seenS [][66]byte
	verifrt.Summarize("mldsa.rejectNTTPoly", func(rho [34]byte) *polyNTT {
		seenA = append(seenA, rho)
		return &polyNTT{}
	})
	verifrt.Summarize("mldsa.params).rejectBoundedPoly", func(p *params, rho [66]byte) *poly {
		seenS = append(seenS, rho)
		return &poly{}
	})
	var rho [32]byte
	copy(rho[:], verifrt.Bytes("rho", 32))
	var rhop [64]byte
	copy(rhop[:], verifrt.Bytes("rhop", 64))
	par.expandA(rho)
	par.expandS(rhop)
	verifrt.Assert(len(seenA) == par.k*par.l && len(seenS) == par.k+par.l, "k*l matrix entries, l+k secret polynomials")
	for r := 0; r < par.k; r++ {
		for s := 0; s < par.l; s++ {
			in := seenA[r*par.l+s]
			verifrt.AssertEq(in[:32], rho[:], "ExpandA seed prefix")
			verifrt.Assert(in[32] == byte(s) && in[33] == byte(r), "ExpandA: A[r][s] from rho || IntegerToBytes(s,1) || IntegerToBytes(r,1)")
		}
	}
	for i := 0; i < par.l+par.k; i++ {
		in := seenS[i]
		verifrt.AssertEq(in[:64], rhop[:], "ExpandS seed prefix")
		verifrt.Assert(in[64] == byte(i) && in[65] == 0, "ExpandS: polynomial i from rho || IntegerToBytes(i, 2)")
	}
	verifrt.Reach("end")
}

// CoeffFromHalfByte (Algorithm 15) for every b < 16.
func VerifH_mldsa_coeffFromHalfByte() {
	par := pickSet()
	b := verifrt.Byte("b")
	verifrt.Assume(b < 16)
	got, ok := par.coeffFromHalfByte(b)
	if par.eta == 2 {
		verifrt.Assert(ok == (b < 15), "eta=2 accepts b < 15")
		if ok {
			want := int32(2) - int32(b%5)
			if want < 0 {
				want += specQ
			}
			verifrt.Assert(int32(got) == want, "eta=2: 2 - (b mod 5)")
		}
	} else {
		verifrt.Assert(ok == (b < 9), "eta=4 accepts b < 9")
		if ok {
			want := int32(4) - int32(b)
			if want < 0 {
				want += specQ
			}
			verifrt.Assert(int32(got) == want, "eta=4: 4 - b")
		}
	}
	verifrt.Reach("end")
}

// Lengths: sigDecode and the key decoders reject every other length; table 2 sizes.
func VerifH_mldsa_lengths() {
	par := pickSet()
	want := [...][3]int{{1312, 2560, 2420}, {1952, 4032, 3309}, {2592, 4896, 4627}}
	var w [3]int
	switch par {
	case MLDSA44:
		w = want[0]
	case MLDSA65:
		w = want[1]
	default:
		w = want[2]
	}
	verifrt.Assert(par.PublicKeyLength() == w[0] && par.SecretKeyLength() == w[1], "key lengths == FIPS 204 Table 2")
	d := [...]int{-1, 1, -32, 32}[verifrt.Choice("delta", 4)]
	_, _, _, err := par.sigDecode(make([]byte, w[2]+d))
	verifrt.Assert(err != nil, "signature of the wrong length rejected")
	_, _, _, err = par.sigDecode(make([]byte, w[2]))
	verifrt.Assert(err == nil, "all-zero signature of the right length decodes (lengths/offsets in range)")
	_, err = par.DecodePublicKey(make([]byte, w[0]+d))
	verifrt.Assert(err != nil, "public key of the wrong length rejected")
	_, err = par.DecodeSecretKey(make([]byte, w[1]+d))
	verifrt.Assert(err != nil, "secret key of the wrong length rejected")
	verifrt.Reach("end")
}


// ---- C20: hedged signing hands one fresh 32-byte draw, unchanged, to the internal signer;
// the message framing is 0 || len(ctx) || ctx || M (also part of C10).
func VerifH_c20_mldsa_sign() {
	verifrt.EngineOnly()
	var gotRnd [32]byte
	var gotMu [64]byte
	var gotMp []byte
	calls := 0
	verifrt.Summarize("mldsa.SecretKey).signInternalWithMu", func(sk *SecretKey, mu [64]byte, rnd [32]byte) []byte {
		calls++
		gotRnd, gotMu = rnd, mu
		return []byte{1}
	})
	verifrt.Summarize("mldsa.SecretKey).signInternal", func(sk *SecretKey, mp []byte, rnd [32]byte) []byte {
		calls++
		gotRnd, gotMp = rnd, mp
		return []byte{1}
	})
	sk := &SecretKey{par: MLDSA44}
	d0 := verifrt.Draws()
	if verifrt.Choice("api", 2) == 0 {
		var mu [64]byte
		copy(mu[:], verifrt.Bytes("mu", 64))
		sk.SignWithMu(mu)
		verifrt.AssertEq(gotMu[:], mu[:], "mu passed through")
	} else {
		m := verifrt.Bytes("m", verifrt.Choice("ml", 3))
		ctx := verifrt.Bytes("ctx", verifrt.Choice("cl", 3))
		_, err := sk.Sign(m, ctx)
		verifrt.Assert(err == nil, "Sign succeeds for contexts up to 255 bytes")
		want := append(append([]byte{0, byte(len(ctx))}, ctx...), m...)
		verifrt.AssertEq(gotMp, want, "M' = 0 || len(ctx) || ctx || M")
	}
	verifrt.Assert(calls == 1 && verifrt.Draws() == d0+1, "one internal signing call, exactly one random draw")
	draw := verifrt.DrawBytes(d0)
	verifrt.Assert(len(draw) == 32, "a 32-byte draw")
	verifrt.AssertEq(gotRnd[:], draw, "the internal signer receives exactly the drawn bytes")
	// the deterministic variants use all-zero randomness and draw nothing
	d1 := verifrt.Draws()
	var mu [64]byte
	sk.SignDeterministicWithMu(mu)
	verifrt.Assert(verifrt.Draws() == d1, "deterministic signing draws nothing")
	verifrt.AssertEq(gotRnd[:], make([]byte, 32), "deterministic signing uses all-zero randomness")
	verifrt.Reach("end")
}

// External API framing (FIPS 204 Algorithms 2-3): contexts longer than 255 bytes are refused
// by Sign, SignDeterministic and Verify; otherwise M' = 0 || len(ctx) || ctx || M.
func VerifH_mldsa_context() {
	var gotSign, gotVerify []byte
	var sk *SecretKey
	var pk *PublicKey
	if verifrt.Symbolic() {
		verifrt.Summarize("mldsa.SecretKey).signInternal", func(sk *SecretKey, mp []byte, rnd [32]byte) []byte {
			gotSign = mp
			return []byte{1}
		})
		verifrt.Summarize("mldsa.PublicKey).verifyInternal", func(pk *PublicKey, mp []byte, sigma []byte) error {
			gotVerify = mp
			return nil
		})
		par := pickSet()
		sk, pk = &SecretKey{par: par}, &PublicKey{par: par}
	} else {
		pk, sk = MLDSA44.KeyGenFromSeed([32]byte{1})
	}
	cl := [...]int{0, 1, 2, 254, 255, 256, 257, 511, 512}[verifrt.Choice("cl", 9)]
	ctx := make([]byte, cl)
	if cl > 0 {
		ctx[0] = verifrt.Byte("c0")
		ctx[cl-1] = verifrt.Byte("cN")
	}
	m := verifrt.Bytes("m", verifrt.Choice("ml", 3))
	want := append(append([]byte{0, byte(cl)}, ctx...), m...)
	_, e1 := sk.Sign(m, ctx)
	if e1 == nil && verifrt.Symbolic() {
		verifrt.AssertEq(gotSign, want, "Sign: M' = 0 || len(ctx) || ctx || M")
	}
	_, e2 := sk.SignDeterministic(m, ctx)
	sig := []byte{1}
	if !verifrt.Symbolic() {
		// a signature genuinely valid for the M' that a wrapped length byte would produce
		r := cl % 256
		sig, _ = sk.SignDeterministic(append(append([]byte{}, ctx[r:]...), m...), ctx[:r])
	}
	e3 := pk.Verify(m, sig, ctx)
	if e3 == nil && verifrt.Symbolic() {
		verifrt.AssertEq(gotVerify, want, "Verify: M' = 0 || len(ctx) || ctx || M")
	}
	verifrt.Assert((e1 == nil) == (cl <= 255) && (e2 == nil) == (cl <= 255) && (e3 == nil) == (cl <= 255), "contexts longer than 255 bytes are refused by Sign, SignDeterministic and Verify")
	verifrt.Reach("end")
}
