package mldsa

import "github.com/tink-crypto/tink-go/v2/internal/verifrt"

// Exported shim for the dispatch-table harnesses of the OUTER packages (signature/mldsa,
// signature/compositemldsa, jwt/jwtmldsa), which cannot name the unexported type params.

// verifParamsName maps a parameter-set pointer to the exported variable it is identical to.
func verifParamsName(p *params) string {
	switch p {
	case nil:
		return "<nil>"
	case MLDSA44:
		return "MLDSA44"
	case MLDSA65:
		return "MLDSA65"
	case MLDSA87:
		return "MLDSA87"
	}
	return "<other>"
}

func VerifSecretKeyParamsName(sk *SecretKey) string {
	if sk == nil {
		return "<nil key>"
	}
	return verifParamsName(sk.par)
}

func VerifPublicKeyParamsName(pk *PublicKey) string {
	if pk == nil {
		return "<nil key>"
	}
	return verifParamsName(pk.par)
}

// VerifDispatchRecord is one call observed by the recording summaries.
type VerifDispatchRecord struct {
	Call string // "<function>:<set>"
	Arg  []byte // seed / encoded key / message
	Arg2 []byte // signature (Verify)
	Arg3 []byte // context (Sign, Verify)
}

// VerifStubSignature is what the Sign summary returns and (by default) the only signature
// the Verify summary accepts.
var VerifStubSignature = []byte{0x4d, 0x4c, 0x53, 0x49, 0x47}

// VerifVerifyResult, when non-nil, decides the outcome of the Verify summary.
var VerifVerifyResult func(rec VerifDispatchRecord) bool

type verifStubErr struct{}

func (verifStubErr) Error() string { return "stub: invalid ML-DSA signature" }

// VerifInstallDispatchLog installs recording summaries (engine only) for the functions of
// this package through which the key layers select a parameter set:
//   - KeyGenFromSeed: records set and seed, returns keys bound to the receiver whose
//     encodings (Encode summaries) are symbolic byte strings "kg_pk" / "kg_sk" of the set's
//     FIPS 204 lengths (the real one runs ExpandA / NTTs);
//   - DecodeSecretKey / DecodePublicKey: record set and bytes; wrong lengths are refused as in
//     the real code; the result is a key bound to the receiver (coefficients not unpacked);
//   - SecretKey.Sign / PublicKey.Verify: record the key's set, message, signature, context.
// VerifDispatchQuiet: Sign / Verify stand-ins stop recording (for the write-set monitor of
// C18, under which the harness's own log would count as shared state).
var VerifDispatchQuiet = false

func VerifInstallDispatchLog(log *[]VerifDispatchRecord) {
	verifrt.Summarize("mldsa.params).KeyGenFromSeed", func(pp *params, seed [SecretKeySeedSize]byte) (*PublicKey, *SecretKey) {
		s := seed
		*log = append(*log, VerifDispatchRecord{Call: "KeyGenFromSeed:" + verifParamsName(pp), Arg: s[:]})
		return &PublicKey{par: pp}, &SecretKey{par: pp, seed: &s}
	})
	verifrt.Summarize("mldsa.PublicKey).Encode", func(pk *PublicKey) []byte {
		return verifrt.Bytes("kg_pk", pk.par.PublicKeyLength())
	})
	verifrt.Summarize("mldsa.SecretKey).Encode", func(sk *SecretKey) []byte {
		return verifrt.Bytes("kg_sk", sk.par.SecretKeyLength())
	})
	verifrt.Summarize("mldsa.params).DecodeSecretKey", func(pp *params, skEnc []byte) (*SecretKey, error) {
		*log = append(*log, VerifDispatchRecord{Call: "DecodeSecretKey:" + verifParamsName(pp), Arg: skEnc})
		if len(skEnc) != pp.SecretKeyLength() {
			return nil, verifStubErr{}
		}
		return &SecretKey{par: pp}, nil
	})
	verifrt.Summarize("mldsa.params).DecodePublicKey", func(pp *params, pkEnc []byte) (*PublicKey, error) {
		*log = append(*log, VerifDispatchRecord{Call: "DecodePublicKey:" + verifParamsName(pp), Arg: pkEnc})
		if len(pkEnc) != pp.PublicKeyLength() {
			return nil, verifStubErr{}
		}
		return &PublicKey{par: pp}, nil
	})
	verifrt.Summarize("mldsa.SecretKey).Sign", func(sk *SecretKey, M []byte, ctx []byte) ([]byte, error) {
		if !VerifDispatchQuiet {
			*log = append(*log, VerifDispatchRecord{Call: "Sign:" + verifParamsName(sk.par), Arg: M, Arg3: ctx})
		}
		return VerifStubSignature, nil
	})
	// the derandomised variant (rnd = 0^32): a Tink signer must never end up here (C20)
	verifrt.Summarize("mldsa.SecretKey).SignDeterministic", func(sk *SecretKey, M []byte, ctx []byte) ([]byte, error) {
		*log = append(*log, VerifDispatchRecord{Call: "SignDeterministic:" + verifParamsName(sk.par), Arg: M, Arg3: ctx})
		return VerifStubSignature, nil
	})
	verifrt.Summarize("mldsa.PublicKey).Verify", func(pk *PublicKey, M []byte, sigma []byte, ctx []byte) error {
		rec := VerifDispatchRecord{Call: "Verify:" + verifParamsName(pk.par), Arg: M, Arg2: sigma, Arg3: ctx}
		if !VerifDispatchQuiet {
			*log = append(*log, rec)
		}
		ok := false
		if VerifVerifyResult != nil {
			ok = VerifVerifyResult(rec)
		} else {
			ok = len(sigma) == len(VerifStubSignature) && verifrt.EqBytes(sigma, VerifStubSignature)
		}
		if ok {
			return nil
		}
		return verifStubErr{}
	})
}

// The three exported parameter sets against FIPS 204 Table 1 (numbers) and Table 2 (sizes).
func VerifH_mldsa_named_sets() {
	type row struct {
		p                          *params
		tau, lambda, log2Gamma1    int
		gamma2                     uint32
		k, l, eta, omega           int
		pkBytes, skBytes, sigBytes int
	}
	const q = 8380417
	rows := [3]row{
		{MLDSA44, 39, 128, 17, (q - 1) / 88, 4, 4, 2, 80, 1312, 2560, 2420},
		{MLDSA65, 49, 192, 19, (q - 1) / 32, 6, 5, 4, 55, 1952, 4032, 3309},
		{MLDSA87, 60, 256, 19, (q - 1) / 32, 8, 7, 2, 75, 2592, 4896, 4627},
	}
	r := rows[verifrt.Choice("set", 3)]
	p := r.p
	verifrt.Assert(p != nil, "variable initialised")
	verifrt.Assert(p.tau == r.tau && p.lambda == r.lambda && p.log2Gamma1 == r.log2Gamma1 && p.gamma2 == r.gamma2 && p.k == r.k && p.l == r.l && p.eta == r.eta && p.omega == r.omega,
		"tau, lambda, gamma1, gamma2, (k, l), eta, omega of the named set == FIPS 204 Table 1")
	verifrt.Assert(p.PublicKeyLength() == r.pkBytes && p.SecretKeyLength() == r.skBytes, "key sizes == FIPS 204 Table 2")
	// signature size: lambda/4 + l*32*(1 + log2(gamma1)) + omega + k
	verifrt.Assert(p.lambda/4+p.l*32*(1+p.log2Gamma1)+p.omega+p.k == r.sigBytes, "signature size == FIPS 204 Table 2")
	_, _, _, err := p.sigDecode(make([]byte, r.sigBytes))
	verifrt.Assert(err == nil, "sigDecode accepts the Table 2 signature length")
	verifrt.Reach("end")
}
