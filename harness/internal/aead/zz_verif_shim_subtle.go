package aead

import "github.com/tink-crypto/tink-go/v2/internal/verifspec"

// Exports for the harnesses of the public wrapper package aead/subtle.

// VerifSpecGCMSIVForge builds nonce || CTR(tag', P) || tag' with tag' = Tag(nonce, ad, P) xor
// delta from the RFC 8452 transcription: the unique pre-image construction of
// VerifH_gcmsiv_decrypt_all.
func VerifSpecGCMSIVForge(key, nonce, p, ad, delta []byte) []byte {
	authKey, encKey := specDeriveKeys(key, nonce)
	tag := verifspec.XorDelta(specTag(authKey, encKey, nonce, p, ad), delta)
	ctrBlock := append([]byte{}, tag...)
	ctrBlock[15] |= 0x80
	return append(append(append([]byte{}, nonce...), specCTR32(encKey, ctrBlock, p)...), tag...)
}

// VerifPolyvalDot is this package's polyvalDot on (lo, hi) pairs.
func VerifPolyvalDot(alo, ahi, blo, bhi uint64) (uint64, uint64) {
	r := polyvalDot(fieldElement{lo: alo, hi: ahi}, fieldElement{lo: blo, hi: bhi})
	return r.lo, r.hi
}

// VerifMul64 is this package's mul64.
func VerifMul64(a, b uint64) (uint64, uint64) {
	r := mul64(a, b)
	return r.lo, r.hi
}
