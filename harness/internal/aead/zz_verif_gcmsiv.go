package aead

import (
	"crypto/aes"

	"github.com/tink-crypto/tink-go/v2/internal/verifrt"
	"github.com/tink-crypto/tink-go/v2/internal/verifspec"
)

// ---- RFC 8452 transcription. POLYVAL's field multiplication is the implementation's
// polyvalDot on both sides (it is decided separately by the polyval harnesses), everything
// else is written from the RFC text.

func le64(b []byte) uint64 {
	var v uint64
	for i := 7; i >= 0; i-- {
		v = v<<8 | uint64(b[i])
	}
	return v
}

func putLE64(b []byte, v uint64) {
	for i := 0; i < 8; i++ {
		b[i] = byte(v >> (8 * uint(i)))
	}
}

// specPolyval: S_0 = 0, S_j = dot(S_{j-1} + X_j, H)   (RFC 8452 §3)
func specPolyval(h []byte, blocks []byte) [16]byte {
	hk := fieldElement{lo: le64(h[:8]), hi: le64(h[8:])}
	var s fieldElement
	for i := 0; i+16 <= len(blocks); i += 16 {
		s.lo ^= le64(blocks[i : i+8])
		s.hi ^= le64(blocks[i+8 : i+16])
		s = polyvalDot(s, hk)
	}
	var out [16]byte
	putLE64(out[:8], s.lo)
	putLE64(out[8:], s.hi)
	return out
}

func pad16(b []byte) []byte {
	out := append([]byte{}, b...)
	for len(out)%16 != 0 {
		out = append(out, 0)
	}
	return out
}

// specDeriveKeys: RFC 8452 §4 derive_keys.
func specDeriveKeys(key, nonce []byte) (authKey, encKey []byte) {
	bc, _ := aes.NewCipher(key)
	n := 4
	if len(key) == 32 {
		n = 6
	}
	var out []byte
	for i := 0; i < n; i++ {
		blk := make([]byte, 16)
		blk[0] = byte(i) // little-endian uint32(i)
		copy(blk[4:], nonce)
		var e [16]byte
		bc.Encrypt(e[:], blk)
		out = append(out, e[:8]...)
	}
	return out[:16], out[16:]
}

// specCTR32: RFC 8452 §4 AES-CTR with a 32-bit little-endian counter in bytes 0..3 (wrapping).
func specCTR32(key, initial, in []byte) []byte {
	bc, _ := aes.NewCipher(key)
	block := append([]byte{}, initial...)
	ctr := uint32(block[0]) | uint32(block[1])<<8 | uint32(block[2])<<16 | uint32(block[3])<<24
	out := make([]byte, len(in))
	var ks [16]byte
	for i := 0; i < len(in); i++ {
		if i%16 == 0 {
			block[0], block[1], block[2], block[3] = byte(ctr), byte(ctr>>8), byte(ctr>>16), byte(ctr>>24)
			bc.Encrypt(ks[:], block)
			ctr++
		}
		out[i] = in[i] ^ ks[i%16]
	}
	return out
}

func specTag(authKey, encKey, nonce, pt, ad []byte) []byte {
	var lenBlock [16]byte
	putLE64(lenBlock[:8], uint64(len(ad))*8)
	putLE64(lenBlock[8:], uint64(len(pt))*8)
	in := append(append(pad16(ad), pad16(pt)...), lenBlock[:]...)
	s := specPolyval(authKey, in)
	for i := 0; i < 12; i++ {
		s[i] ^= nonce[i]
	}
	s[15] &= 0x7f
	bc, _ := aes.NewCipher(encKey)
	tag := make([]byte, 16)
	bc.Encrypt(tag, s[:])
	return tag
}

// VerifSpecGCMSIVSeal is AES-GCM-SIV (RFC 8452 §4): nonce || ciphertext || tag.
func VerifSpecGCMSIVSeal(key, nonce, pt, ad []byte) []byte {
	authKey, encKey := specDeriveKeys(key, nonce)
	tag := specTag(authKey, encKey, nonce, pt, ad)
	ctrBlock := append([]byte{}, tag...)
	ctrBlock[15] |= 0x80
	out := append([]byte{}, nonce...)
	out = append(out, specCTR32(encKey, ctrBlock, pt)...)
	return append(out, tag...)
}

// VerifDotSummary replaces polyvalDot by an uninterpreted function (used by framing
// harnesses; justified by the polyval harnesses).
func VerifDotSummary() {
	verifrt.Summarize("internal/aead.polyvalDot", func(a, b fieldElement) fieldElement {
		var ab, bb [16]byte
		putLE64(ab[:8], a.lo)
		putLE64(ab[8:], a.hi)
		putLE64(bb[:8], b.lo)
		putLE64(bb[8:], b.hi)
		r := verifrt.UF("POLYVALDOT", 16, ab[:], bb[:])
		return fieldElement{lo: le64(r[:8]), hi: le64(r[8:])}
	})
}

func gcmsivMax() int {
	if verifrt.Thorough() {
		return 49
	}
	return 33
}

func ks(name string) int {
	if verifrt.Choice(name, 2) == 0 {
		return 16
	}
	return 32
}

func VerifH_gcmsiv_derive() {
	key := verifrt.Bytes("key", ks("ks"))
	nonce := verifrt.Bytes("nonce", 12)
	a, err := NewAESGCMSIV(key)
	verifrt.Assert(err == nil, "NewAESGCMSIV accepts 16/32-byte keys")
	authKey := make([]byte, 16)
	encKey := make([]byte, len(key))
	verifrt.Assert(a.deriveKeys(nonce, authKey, encKey) == nil, "deriveKeys succeeds")
	wa, we := specDeriveKeys(key, nonce)
	verifrt.AssertEq(authKey, wa, "message-authentication key == RFC 8452 derive_keys")
	verifrt.AssertEq(encKey, we, "message-encryption key == RFC 8452 derive_keys")
	verifrt.Observe("authKey", authKey)
	verifrt.Observe("encKey", encKey)
	verifrt.Reach("end")
}

// The counter block is an arbitrary 16-byte string, so the 32-bit wrap-around (and the
// absence of a carry into byte 4) is covered.
func VerifH_gcmsiv_ctr() {
	key := verifrt.Bytes("key", ks("ks"))
	tag := verifrt.Bytes("tag", 16)
	n := verifrt.Choice("n", gcmsivMax()+1)
	in := verifrt.Bytes("in", n)
	out := make([]byte, n)
	verifrt.Assert(aesCTR(key, tag, in, out) == nil, "aesCTR succeeds")
	initial := append([]byte{}, tag...)
	initial[15] |= 0x80
	verifrt.AssertEq(out, specCTR32(key, initial, in), "aesCTR == RFC 8452 CTR (32-bit LE counter, wrapping)")
	verifrt.Observe("out", out)
	verifrt.Reach("end")
}

func VerifH_gcmsiv_polyval_framing() {
	VerifDotSummary()
	a, _ := NewAESGCMSIV(verifrt.Bytes("key", 16))
	authKey := verifrt.Bytes("h", 16)
	n := verifrt.Choice("n", gcmsivMax()+1)
	m := verifrt.Choice("m", 18)
	pt := verifrt.Bytes("pt", n)
	ad := verifrt.Bytes("ad", m)
	got, err := a.computePolyval(authKey, pt, ad)
	verifrt.Assert(err == nil, "computePolyval succeeds")
	var lenBlock [16]byte
	putLE64(lenBlock[:8], uint64(m)*8)
	putLE64(lenBlock[8:], uint64(n)*8)
	want := specPolyval(authKey, append(append(pad16(ad), pad16(pt)...), lenBlock[:]...))
	verifrt.AssertEq(got, want[:], "POLYVAL input == pad(AD) || pad(PT) || le64(8|AD|) || le64(8|PT|), S_j = dot(S_{j-1}+X_j, H)")
	verifrt.Reach("end")
}

func VerifH_gcmsiv_seal() {
	VerifDotSummary()
	key := verifrt.Bytes("key", ks("ks"))
	n := verifrt.Choice("n", 18)
	m := verifrt.Choice("m", 3)
	pt := verifrt.Bytes("pt", n)
	ad := verifrt.Bytes("ad", m)
	a, _ := NewAESGCMSIV(key)
	d0 := verifrt.Draws()
	ct, err := a.Encrypt(make([]byte, 0, 12+16+n), pt, ad)
	verifrt.Assert(err == nil, "Encrypt succeeds")
	verifrt.Assert(verifrt.Draws() == d0+1 && len(verifrt.DrawBytes(d0)) == 12, "one 12-byte nonce draw")
	nonce := verifrt.DrawBytes(d0)
	verifrt.AssertEq(ct, VerifSpecGCMSIVSeal(key, nonce, pt, ad), "ciphertext == nonce || RFC 8452 AES-GCM-SIV(key, nonce, pt, ad)")
	got, err := a.Decrypt(ct, ad)
	verifrt.Assert(err == nil, "Decrypt of own ciphertext succeeds")
	verifrt.AssertEq(got, pt, "round trip")
	verifrt.Reach("end")
}

// Every (nonce, ciphertext, tag) with |ciphertext| = n is nonce || CTR(tag, P) || tag for
// exactly one P; Decrypt must accept iff tag == Tag(nonce, ad, P). The candidate tag is the
// genuine tag xor delta (all 16-byte strings; replayable with the real AES).
func VerifH_gcmsiv_decrypt_all() {
	VerifDotSummary()
	key := verifrt.Bytes("key", ks("ks"))
	n := verifrt.Choice("n", 18)
	p := verifrt.Bytes("p", n)
	ad := verifrt.Bytes("ad", verifrt.Choice("m", 2))
	nonce := verifrt.Bytes("nonce", 12)
	delta := verifrt.Bytes("delta", 16)
	authKey, encKey := specDeriveKeys(key, nonce)
	tag := verifspec.XorDelta(specTag(authKey, encKey, nonce, p, ad), delta)
	ctrBlock := append([]byte{}, tag...)
	ctrBlock[15] |= 0x80
	ct := append(append(append([]byte{}, nonce...), specCTR32(encKey, ctrBlock, p)...), tag...)
	a, _ := NewAESGCMSIV(key)
	got, err := a.Decrypt(ct, ad)
	verifrt.Assert((err == nil) == verifrt.EqBytes(delta, make([]byte, 16)), "Decrypt accepts exactly tag == Tag(nonce, ad, P)")
	if err == nil {
		verifrt.AssertEq(got, p, "Decrypt returns P")
		verifrt.Reach("accepted")
	} else {
		verifrt.Assert(got == nil, "no plaintext on error")
		verifrt.Reach("rejected")
	}
}

func VerifH_gcmsiv_short() {
	key := verifrt.Bytes("key", 16)
	n := verifrt.Choice("n", 28)
	a, _ := NewAESGCMSIV(key)
	pt, err := a.Decrypt(verifrt.Bytes("ct", n), verifrt.Bytes("ad", 1))
	verifrt.Assert(err != nil && pt == nil, "ciphertext shorter than nonce+tag rejected")
	verifrt.Reach("end")
}

// ---- POLYVAL kernels

func clmul32(a, b uint32) uint64 {
	var r uint64
	for i := 0; i < 32; i++ {
		m := uint64(0)
		if (b>>uint(i))&1 == 1 {
			m = ^uint64(0)
		}
		r ^= (uint64(a) << uint(i)) & m
	}
	return r
}

func VerifH_polyval_mul32() {
	a := verifrt.Uint32("a")
	b := verifrt.Uint32("b")
	verifrt.Tag("xor")
	verifrt.AssertBits(mul32(a, b), clmul32(a, b), "mul32 == carry-less product")
	verifrt.Reach("end")
}
