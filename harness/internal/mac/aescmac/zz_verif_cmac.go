package aescmac

import (
	"crypto/aes"

	"github.com/tink-crypto/tink-go/v2/internal/verifrt"
)

// ---- RFC 4493 transcription (over the same AES as the implementation)

func specDbl(in [16]byte) [16]byte { // §2.3: L << 1, xor Rb if MSB(L) = 1
	var out [16]byte
	for i := 0; i < 16; i++ {
		out[i] = in[i] << 1
		if i < 15 {
			out[i] |= in[i+1] >> 7
		}
	}
	rb := byte(0)
	if in[0]&0x80 != 0 {
		rb = 0x87
	}
	out[15] ^= rb
	return out
}

func specCMAC(key, msg []byte) []byte {
	bc, err := aes.NewCipher(key)
	if err != nil {
		panic(err)
	}
	var zero, l [16]byte
	bc.Encrypt(l[:], zero[:])
	k1 := specDbl(l)
	k2 := specDbl(k1)
	n := (len(msg) + 15) / 16
	complete := false
	if n == 0 {
		n = 1
	} else {
		complete = len(msg)%16 == 0
	}
	var last [16]byte
	tail := msg[16*(n-1):]
	if complete {
		for i := 0; i < 16; i++ {
			last[i] = tail[i] ^ k1[i]
		}
	} else {
		copy(last[:], tail)
		last[len(tail)] = 0x80
		for i := 0; i < 16; i++ {
			last[i] ^= k2[i]
		}
	}
	var x, y [16]byte
	for i := 0; i < n-1; i++ {
		for j := 0; j < 16; j++ {
			y[j] = x[j] ^ msg[16*i+j]
		}
		bc.Encrypt(x[:], y[:])
	}
	for j := 0; j < 16; j++ {
		y[j] = x[j] ^ last[j]
	}
	out := make([]byte, 16)
	bc.Encrypt(out, y[:])
	return out
}

func cmacMaxLen() int {
	return 33
}

func keyLen(name string) int {
	switch verifrt.Choice(name, 3) {
	case 0:
		return 16
	case 1:
		return 24
	}
	return 32
}

func VerifH_cmac_mulByX() {
	b := verifrt.Bytes("b", 16)
	var in [16]byte
	copy(in[:], b)
	want := specDbl(in)
	mulByX(b)
	verifrt.AssertEq(b, want[:], "mulByX == dbl (RFC 4493 §2.3)")
	verifrt.Reach("end")
}

// cmacLen picks the message length: every length up to the dense bound, then lengths around
// block-count boundaries further out (the loop over blocks is uniform, but an implementation
// could treat some block count specially; thorough covers every length up to 530).
func cmacLen(name string) int {
	dense := cmacMaxLen()
	if verifrt.Thorough() {
		return verifrt.Choice(name, 531)
	}
	far := [...]int{63, 64, 65, 127, 128, 129, 255, 256, 257, 271, 272, 273, 288, 511, 512, 513}
	k := verifrt.Choice(name, dense+1+len(far))
	if k <= dense {
		return k
	}
	return far[k-dense-1]
}

func VerifH_cmac_compute() {
	kl := keyLen("kl")
	key := verifrt.Bytes("key", kl)
	n := cmacLen("n")
	msg := verifrt.Bytes("msg", n)
	c, err := New(key)
	verifrt.Assert(err == nil, "New accepts 16/24/32-byte keys")
	got := c.Compute(msg)
	verifrt.AssertEq(got, specCMAC(key, msg), "Compute == RFC 4493 AES-CMAC")
	verifrt.AssertEq(c.Compute(msg), got, "Compute is deterministic")
	verifrt.Observe("len", len(got))
	verifrt.Observe("mac", got)
	verifrt.Reach("end")
}

func VerifH_cmac_badkey() {
	kl := verifrt.Choice("kl", 40)
	verifrt.Assume(kl != 16 && kl != 24 && kl != 32)
	_, err := New(verifrt.Bytes("key", kl))
	verifrt.Assert(err != nil, "New rejects other key sizes")
	verifrt.Reach("end")
}

// XOREndAndCompute(data, last) == Compute(data xorend last)
func VerifH_cmac_xorend() {
	key := verifrt.Bytes("key", 16)
	n := 16 + verifrt.Choice("n", cmacMaxLen()-16+1)
	data := verifrt.Bytes("data", n)
	last := verifrt.Bytes("last", 16)
	c, _ := New(key)
	got, err := c.XOREndAndCompute(data, last)
	verifrt.Assert(err == nil, "XOREndAndCompute accepts len(data) >= 16")
	x := append([]byte{}, data...)
	for i := 0; i < 16; i++ {
		x[n-16+i] ^= last[i]
	}
	verifrt.AssertEq(got, specCMAC(key, x), "XOREndAndCompute == CMAC(data xorend last)")
	verifrt.Observe("mac", got)
	verifrt.Reach("end")
}

func VerifH_cmac_xorend_short() {
	key := verifrt.Bytes("key", 16)
	n := verifrt.Choice("n", 20)
	l := verifrt.Choice("l", 20)
	verifrt.Assume(n < 16 || l != 16)
	c, _ := New(key)
	out, err := c.XOREndAndCompute(verifrt.Bytes("data", n), verifrt.Bytes("last", l))
	verifrt.Assert(err != nil && out == nil, "XOREndAndCompute rejects short data / wrong last size")
	verifrt.Reach("end")
}
