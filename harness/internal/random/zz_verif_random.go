package random

import "github.com/tink-crypto/tink-go/v2/internal/verifrt"

// MustRand(b) fills all of b with exactly one draw of len(b) bytes, placed verbatim, and
// touches nothing outside b[:len(b)] (spare capacity, neighbouring bytes of the same array).
func VerifH_random_mustrand() {
	// every length 0..40; thorough tier: also 64, 255, 256, 1000
	var n int
	if verifrt.Thorough() {
		if k := verifrt.Choice("n", 45); k <= 40 {
			n = k
		} else {
			n = [...]int{64, 255, 256, 1000}[k-41]
		}
	} else {
		n = verifrt.Choice("n", 41)
	}
	arr := verifrt.Bytes("before", n+4) // two guard bytes on each side
	arr0 := append([]byte{}, arr...)
	b := arr[2 : 2+n : 2+n+1]
	d0 := verifrt.Draws()
	MustRand(b)
	if n == 0 {
		verifrt.Assert(verifrt.Draws() == d0, "nothing to fill: no draw")
	} else {
		verifrt.Assert(verifrt.Draws() == d0+1, "exactly one draw")
		rnd := verifrt.DrawBytes(d0)
		verifrt.Assert(len(rnd) == n, "the draw has the full length")
		verifrt.AssertEq(b, rnd, "the draw is placed verbatim")
	}
	verifrt.AssertEq(arr[:2], arr0[:2], "bytes before the slice untouched")
	verifrt.AssertEq(arr[2+n:], arr0[2+n:], "spare capacity and bytes after the slice untouched")
	verifrt.Reach("end")
}
