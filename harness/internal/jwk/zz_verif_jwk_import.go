package jwk

import (
	"github.com/tink-crypto/tink-go/v2/internal/verifrt"
	"github.com/tink-crypto/tink-go/v2/jwt/jwtecdsa"
	"github.com/tink-crypto/tink-go/v2/jwt/jwtrsassapkcs1"
	"github.com/tink-crypto/tink-go/v2/jwt/jwtrsassapss"
	"github.com/tink-crypto/tink-go/v2/key"
	"github.com/tink-crypto/tink-go/v2/signature/ed25519"
	spb "google.golang.org/protobuf/types/known/structpb"
)

// ---------------------------------------------------------------------------------------
// 3. import: JWK members -> key object
//
// Rules, from RFC 7517 section 4 and RFC 7518 section 6 plus what Tink documents for the
// conversion ("requires that all keys in the set have the alg field set"; public keys only):
//   - alg required: one of the nine names (or "EdDSA" when Ed25519 support is on); it selects
//     the key type; kty must be the one belonging to it ("RSA" / "EC" / "OKP"); for EC, crv
//     must be the curve of the algorithm
//   - use, if present, must be the string "sig"; key_ops, if present, must be exactly
//     ["verify"]
//   - the key material members (RSA: n, e; EC: x, y; OKP: x) must be present, JSON strings
//     and unpadded base64url
//   - a member that only private keys have (RSA: d, p, q, dp, dq, qi; EC: d) refuses the JWK
//   - kid, if present, must be a string; the key then has the custom-kid strategy with that
//     kid, otherwise the ignored-kid strategy; the key never has an id requirement
//   - a member of the wrong JSON kind is an error, never a panic
//   - the key constructors' own rules on top: RSA modulus of at least 2048 bits, public
//     exponent odd and in [65537, 2^31-1]; EC point 04 || x || y on the algorithm's curve;
//     Ed25519 key of 32 bytes
// ---------------------------------------------------------------------------------------

// installCodecModel. The engine cannot execute base64Decode's `for _, c := range content`
// on a string with symbolic characters (rune decoding), and a decoder applied to the
// encoder's output over symbolic bytes costs minutes of solver time per 32 bytes. Where a
// harness hands the importer encodings of symbolic byte strings (or exported JWKs),
// base64Decode is replaced by a model: the pre-image of an encoding produced on this path
// is returned syntactically (decode(encode(p)) == p), every other string goes through the
// reference decoder specB64URLDecode. base64Encode is wrapped only to record its results;
// the characters are computed by the real one (summaries are not applied inside a summary).
// The replacement is justified by
//   VerifH_jwk_b64_encode       base64Encode == reference encoder, and the reference decoder
//                               inverts it (bounded lengths; the codec works on independent
//                               3-byte / 4-character blocks)
//   VerifH_jwk_b64_validchar    isValidURLsafeBase64Char == alphabet membership, all runes
//   VerifH_jwk_b64_decode_std   Go's URLEncoding/NoPadding DecodeString == specB64URLDecode
//                               on all alphabet strings of the bounded lengths
//   VerifH_jwk_b64_decode_real  the real base64Decode (rune loop included) on concrete
//                               strings: every byte value at every position, multi-byte
//                               runes, padding, line breaks
// The *_shapes, *_concrete and handle_import harnesses do not install it: their strings are
// concrete and the real base64Decode runs. Natively Summarize is a no-op.
func installCodecModel() {
	verifrt.Summarize("internal/jwk.base64Encode", func(content []byte) string {
		s := base64Encode(content)
		verifrt.MemoPut("jwk.b64", content, []byte(s))
		return s
	})
	verifrt.Summarize("internal/jwk.base64Decode", func(s string) ([]byte, error) {
		if p, ok := verifrt.MemoGet("jwk.b64", []byte(s)); ok {
			return p, nil
		}
		return specB64URLDecode(s)
	})
}

func strVal(s string) *spb.Value { return spb.NewStringValue(s) }

func listVal(vals ...*spb.Value) *spb.Value {
	return spb.NewListValue(&spb.ListValue{Values: vals})
}

// gotKey is what the accessors of an imported key report.
type gotKey struct {
	known          bool
	fam, algIdx    int
	strat          int
	modulus, point []byte
	exponent, bits int
	kid            string
	hasKID         bool
	id             uint32
	hasID          bool
}

func describeKey(k key.Key) gotKey {
	g := gotKey{algIdx: -1, strat: -1}
	switch k := k.(type) {
	case *jwtrsassapkcs1.PublicKey:
		p := k.Parameters().(*jwtrsassapkcs1.Parameters)
		g.known, g.fam = true, famRS
		switch p.Algorithm() {
		case jwtrsassapkcs1.RS256:
			g.algIdx = 0
		case jwtrsassapkcs1.RS384:
			g.algIdx = 1
		case jwtrsassapkcs1.RS512:
			g.algIdx = 2
		}
		switch p.KIDStrategy() {
		case jwtrsassapkcs1.Base64EncodedKeyIDAsKID:
			g.strat = stratKeyID
		case jwtrsassapkcs1.IgnoredKID:
			g.strat = stratNone
		case jwtrsassapkcs1.CustomKID:
			g.strat = stratCustom
		}
		g.modulus, g.exponent, g.bits = k.Modulus(), p.PublicExponent(), p.ModulusSizeInBits()
		g.kid, g.hasKID = k.KID()
		g.id, g.hasID = k.IDRequirement()
	case *jwtrsassapss.PublicKey:
		p := k.Parameters().(*jwtrsassapss.Parameters)
		g.known, g.fam = true, famPS
		switch p.Algorithm() {
		case jwtrsassapss.PS256:
			g.algIdx = 0
		case jwtrsassapss.PS384:
			g.algIdx = 1
		case jwtrsassapss.PS512:
			g.algIdx = 2
		}
		switch p.KIDStrategy() {
		case jwtrsassapss.Base64EncodedKeyIDAsKID:
			g.strat = stratKeyID
		case jwtrsassapss.IgnoredKID:
			g.strat = stratNone
		case jwtrsassapss.CustomKID:
			g.strat = stratCustom
		}
		g.modulus, g.exponent, g.bits = k.Modulus(), p.PublicExponent(), p.ModulusSizeInBits()
		g.kid, g.hasKID = k.KID()
		g.id, g.hasID = k.IDRequirement()
	case *jwtecdsa.PublicKey:
		p := k.Parameters().(*jwtecdsa.Parameters)
		g.known, g.fam = true, famES
		switch p.Algorithm() {
		case jwtecdsa.ES256:
			g.algIdx = 0
		case jwtecdsa.ES384:
			g.algIdx = 1
		case jwtecdsa.ES512:
			g.algIdx = 2
		}
		switch p.KIDStrategy() {
		case jwtecdsa.Base64EncodedKeyIDAsKID:
			g.strat = stratKeyID
		case jwtecdsa.IgnoredKID:
			g.strat = stratNone
		case jwtecdsa.CustomKID:
			g.strat = stratCustom
		}
		g.point = k.PublicPoint()
		g.kid, g.hasKID = k.KID()
		g.id, g.hasID = k.IDRequirement()
	}
	return g
}

// checkImportedKID: custom-kid strategy with exactly that kid iff the JWK had a kid member;
// never an id requirement.
func checkImportedKID(g gotKey, hasKid bool, kid string) {
	if hasKid {
		verifrt.Assert(g.strat == stratCustom && g.hasKID, "kid present: the key has the custom-kid strategy")
		verifrt.AssertEq([]byte(g.kid), []byte(kid), "kid present: the key's kid is the JWK's kid")
	} else {
		verifrt.Assert(g.strat == stratNone && !g.hasKID && g.kid == "", "kid absent: the key has the ignored-kid strategy and no kid")
	}
	verifrt.Assert(!g.hasID && g.id == 0, "an imported key has no id requirement")
}

// ---- the optional members, shared by all key types ---------------------------------------

// optional members in the "values" harnesses: which of use / key_ops / kid are present is a
// case split, their contents are symbolic. Returns whether use and key_ops are acceptable
// and the kid.
func symOptionalMembers(f map[string]*spb.Value, vary bool) (ok bool, hasKid bool, kid string) {
	ok = true
	usePresent, opsPresent, kidPresent := true, true, false
	if vary {
		usePresent = verifrt.Choice("use.present", 2) == 1
		opsPresent = verifrt.Choice("key_ops.present", 2) == 1
		kidPresent = verifrt.Choice("kid.present", 2) == 1
	}
	if usePresent {
		use := string(verifrt.Bytes("use", 3))
		f["use"] = strVal(use)
		ok = verifrt.And(ok, use == "sig")
	}
	if opsPresent {
		op := string(verifrt.Bytes("key_ops0", 6))
		f["key_ops"] = listVal(strVal(op))
		ok = verifrt.And(ok, op == "verify")
	}
	if kidPresent {
		kid = symCustomKID()
		f["kid"] = strVal(kid)
	}
	return ok, kidPresent, kid
}

// ---- RSA ------------------------------------------------------------------------------------

// specExponentOK: the big-endian value of b (leading zero bytes allowed by a lenient
// consumer) is odd and within [65537, 2^31-1]; v is that value.
func specExponentOK(b []byte) (ok bool, v int) {
	highZero := true
	var low uint32
	for i := range b {
		if i < len(b)-4 {
			highZero = verifrt.And(highZero, b[i] == 0)
		} else {
			low = low<<8 | uint32(b[i])
		}
	}
	ok = verifrt.And(highZero, verifrt.And(verifrt.And(low >= 65537, low <= 1<<31-1), low&1 == 1))
	return ok, int(low)
}

// specModulusOK: at least 2048 significant bits, for the byte lengths used here.
func specModulusOK(n []byte) bool {
	switch len(n) {
	case 256:
		return n[0] >= 0x80
	case 257:
		return verifrt.Or(n[0] != 0, n[1] >= 0x80)
	}
	return len(n) > 257 && n[0] != 0
}

// rsPublicKeyDataFromStruct / psPublicKeyDataFromStruct through keysetKeyFromStruct, on
// well-shaped structs with symbolic values:
//   dim 0  alg: any 5 characters (accepted iff one of the six RSA names; the ES names and
//          everything else are refused for an RSA-shaped JWK), kty any 3 characters
//   dim 1  use / key_ops / kid present or absent, contents symbolic
//   dim 2  e: any bytes of length 0, 1, 2, 3, 4, 5, 9
//   dim 3  n: any bytes of length 255, 256, 257
// In every dim kty, use, key_ops[0], the exponent and modulus bytes are symbolic.
func VerifH_jwk_import_rsa_values() {
	installCodecModel()
	dim := verifrt.Choice("dim", 4)
	f := map[string]*spb.Value{}
	want := true

	wantFam, wantIdx := -1, -1
	var alg string
	if dim == 0 {
		alg = string(verifrt.Bytes("alg", 5))
	} else {
		fam := verifrt.Choice("fam", 2) // RS384 or PS512 (all six names: dim 0)
		alg = jwkAlgNames[fam][1+fam]
	}
	f["alg"] = strVal(alg)
	algOK := false
	for fam := 0; fam < 2; fam++ {
		for i := 0; i < 3; i++ {
			algOK = verifrt.Or(algOK, alg == jwkAlgNames[fam][i])
		}
	}
	want = verifrt.And(want, algOK)

	kty := string(verifrt.Bytes("kty", 3))
	f["kty"] = strVal(kty)
	want = verifrt.And(want, kty == "RSA")

	optOK, hasKid, kid := symOptionalMembers(f, dim == 1)
	want = verifrt.And(want, optOK)

	eLen := 3
	if dim == 2 {
		eLen = [...]int{0, 1, 2, 3, 4, 5, 9}[verifrt.Choice("elen", 7)]
	}
	eBytes := verifrt.Bytes("e", eLen)
	f["e"] = strVal(base64Encode(eBytes))
	eOK, eVal := specExponentOK(eBytes)
	want = verifrt.And(want, eOK)

	nLen := 256
	if dim == 3 {
		nLen = [...]int{255, 256, 257}[verifrt.Choice("nlen", 3)]
	}
	nBytes := verifrt.Bytes("n", nLen)
	if !verifrt.Thorough() {
		// quick tier: at most one leading zero byte (math/big's normalisation forks once per
		// leading zero word otherwise: 33 ways)
		verifrt.Assume(verifrt.Or(nBytes[0] != 0, nBytes[1] != 0))
	}
	f["n"] = strVal(base64Encode(nBytes))
	want = verifrt.And(want, specModulusOK(nBytes))

	k, err := keysetKeyFromStruct(spb.NewStructValue(&spb.Struct{Fields: f}), Ed25519SupportNone)
	verifrt.Assert((err == nil) == want, "an RSA JWK is imported iff alg is an RSA name, kty \"RSA\", use \"sig\", key_ops [\"verify\"], e odd in [65537, 2^31-1], n of at least 2048 bits")
	verifrt.Assert((err == nil) == (k != nil), "a key or an error")
	if err != nil || k == nil {
		verifrt.Reach("refused")
		return
	}
	for fam := 0; fam < 2; fam++ {
		for i := 0; i < 3; i++ {
			if alg == jwkAlgNames[fam][i] {
				wantFam, wantIdx = fam, i
			}
		}
	}
	g := describeKey(k)
	verifrt.Assert(g.known && g.fam == wantFam && g.algIdx == wantIdx, "key type and algorithm are those named by alg")
	verifrt.AssertEq(g.modulus, nBytes, "modulus == decoded n")
	verifrt.Assert(g.exponent == eVal, "public exponent == value of e")
	if nLen == 256 {
		verifrt.Assert(g.bits == 2048, "modulus size == bit length of n")
	}
	checkImportedKID(g, hasKid, kid)
	verifrt.Reach("imported")
}

// a concrete, well-formed 2048-bit RSA JWK (n = 2^2047 + 1 as in the jwt kid harnesses)
func concreteModulus() []byte {
	m := make([]byte, 256)
	m[0], m[255] = 0x80, 1
	return m
}

func concreteRSAFields(alg string) map[string]*spb.Value {
	return map[string]*spb.Value{
		"alg":     strVal(alg),
		"kty":     strVal("RSA"),
		"e":       strVal("AQAB"),
		"n":       strVal(string(specB64URL(concreteModulus()))),
		"use":     strVal("sig"),
		"key_ops": listVal(strVal("verify")),
	}
}

// wrongKinds: JSON values that are not strings (number, bool, null, list, object, and a
// Value without kind).
func wrongKind(i int) *spb.Value {
	switch i {
	case 0:
		return spb.NewNumberValue(1)
	case 1:
		return spb.NewBoolValue(true)
	case 2:
		return spb.NewNullValue()
	case 3:
		return listVal(strVal("sig"))
	case 4:
		return spb.NewStructValue(&spb.Struct{Fields: map[string]*spb.Value{"a": strVal("b")}})
	}
	return &spb.Value{}
}

const nWrongKinds = 6

// shapeCase is one hostile (or harmless) alteration of a well-formed JWK.
type shapeCase struct {
	name   string
	member string
	val    *spb.Value // nil: delete the member
	ok     bool       // still importable
}

// optionalMemberCases: alterations of use / key_ops / kid, the same for every key type.
// kidMatters is false for Ed25519 (the kid is not looked at).
func optionalMemberCases(kidMatters bool) []shapeCase {
	cs := []shapeCase{
		{"use absent", "use", nil, true},
		{"use empty", "use", strVal(""), false},
		{"use enc", "use", strVal("enc"), false},
		{"use SIG", "use", strVal("SIG"), false},
		{"use sig+", "use", strVal("sig "), false},
		{"key_ops absent", "key_ops", nil, true},
		{"key_ops string", "key_ops", strVal("verify"), false},
		{"key_ops empty list", "key_ops", listVal(), false},
		{"key_ops nil list", "key_ops", &spb.Value{Kind: &spb.Value_ListValue{}}, false},
		{"key_ops sign", "key_ops", listVal(strVal("sign")), false},
		{"key_ops verify,verify", "key_ops", listVal(strVal("verify"), strVal("verify")), false},
		{"key_ops verify,sign", "key_ops", listVal(strVal("verify"), strVal("sign")), false},
		{"key_ops sign,verify", "key_ops", listVal(strVal("sign"), strVal("verify")), false},
		{"key_ops [number]", "key_ops", listVal(spb.NewNumberValue(1)), false},
		{"key_ops [null]", "key_ops", listVal(spb.NewNullValue()), false},
		{"key_ops [[verify]]", "key_ops", listVal(listVal(strVal("verify"))), false},
		{"key_ops [empty]", "key_ops", listVal(strVal("")), false},
		{"kid empty string", "kid", strVal(""), true},
		{"kid string", "kid", strVal("my-kid"), true},
	}
	for i := 0; i < nWrongKinds; i++ {
		if i != 3 {
			cs = append(cs, shapeCase{"key_ops wrong kind", "key_ops", wrongKind(i), false})
		}
		cs = append(cs, shapeCase{"use wrong kind", "use", wrongKind(i), false})
		cs = append(cs, shapeCase{"kid wrong kind", "kid", wrongKind(i), !kidMatters})
	}
	return cs
}

// requiredStringCases: a required string member absent or of the wrong kind.
func requiredStringCases(member string) []shapeCase {
	cs := []shapeCase{{member + " absent", member, nil, false}}
	for i := 0; i < nWrongKinds; i++ {
		cs = append(cs, shapeCase{member + " wrong kind", member, wrongKind(i), false})
	}
	return cs
}

// badBase64Cases: strings that are not unpadded base64url, or that decode to unusable key
// material.
func badBase64Cases(member string, good string) []shapeCase {
	var cs []shapeCase
	for _, s := range [...]string{"", "A", good + "=", good + "==", good[:len(good)-1] + "=", good[:1] + "+" + good[2:], good[:1] + "/" + good[2:],
		good[:2] + "\n" + good[2:], good[:2] + "\r\n" + good[2:], good + "\n", " " + good, good[:1] + " " + good[1:], good[:1] + "." + good[2:],
		good[:1] + "é" + good[2:], good[:1] + "\xff" + good[2:]} {
		cs = append(cs, shapeCase{member + " not usable", member, strVal(s), false})
	}
	return cs
}

func applyCase(f map[string]*spb.Value, c shapeCase) {
	if c.val == nil {
		delete(f, c.member)
	} else {
		f[c.member] = c.val
	}
}

// runShapeCases: baseline accepted; every case alone; and (thorough) every case combined
// with every harmless alteration of another member.
func runShapeCases(base func() map[string]*spb.Value, support Ed25519SupportType, cases []shapeCase) {
	i := verifrt.Choice("case", len(cases)+1)
	f := base()
	want := true
	if i < len(cases) {
		applyCase(f, cases[i])
		want = cases[i].ok
		if verifrt.Thorough() {
			// a second, harmless alteration of another member does not mask the first
			var harmless []int
			for j := range cases {
				if cases[j].ok && cases[j].member != cases[i].member {
					harmless = append(harmless, j)
				}
			}
			if j := verifrt.Choice("case2", len(harmless)+1); j < len(harmless) {
				applyCase(f, cases[harmless[j]])
			}
		}
	}
	k, err := verifKeysetKeyNoPanic(spb.NewStructValue(&spb.Struct{Fields: f}), support)
	verifrt.Assert((err == nil) == want, "a JWK with a missing / mistyped / malformed member is refused with an error; harmless omissions are accepted")
	verifrt.Assert((err == nil) == (k != nil), "a key or an error")
	if err == nil {
		verifrt.Reach("accepted")
	} else {
		verifrt.Reach("refused")
	}
}

// (a panic inside the code under test is reported by the engine as a violation of its own;
// the wrapper only gives the call a name in the report)
func verifKeysetKeyNoPanic(v *spb.Value, support Ed25519SupportType) (key.Key, error) {
	return keysetKeyFromStruct(v, support)
}

// Hostile RSA JWKs, all concrete, the real base64Decode included: every required member
// absent or of each wrong JSON kind, every private member present (as string, number,
// null), alg / kty values that are close to right, e and n that are not base64url or not
// acceptable key material, the use / key_ops / kid alterations.
func VerifH_jwk_import_rsa_shapes() {
	fam := verifrt.Choice("fam", 2)
	algName := jwkAlgNames[fam][1]
	var cases []shapeCase
	for _, m := range [...]string{"alg", "kty", "e", "n"} {
		cases = append(cases, requiredStringCases(m)...)
	}
	for _, m := range [...]string{"d", "p", "q", "dp", "dq", "qi"} {
		cases = append(cases,
			shapeCase{"private member (string)", m, strVal("AQAB"), false},
			shapeCase{"private member (number)", m, spb.NewNumberValue(3), false},
			shapeCase{"private member (null)", m, spb.NewNullValue(), false},
			shapeCase{"private member (empty)", m, strVal(""), false})
	}
	for _, a := range [...]string{"", "R", "P", "RS", "PS", "RS25", "RS2567", "RS257", "rs384", "Rs384", "RS384 ", " RS384", "RSA", "RSA1_5", "RS1", "HS256", "ES384", "EdDSA", "none", "PS3840", "RS-384", "RS/PS"} {
		cases = append(cases, shapeCase{"alg not an RSA name", "alg", strVal(a), false})
	}
	// the other RSA family's name is a well-formed JWK of that family
	cases = append(cases, shapeCase{"alg of the other RSA family", "alg", strVal(jwkAlgNames[1-fam][2]), true})
	for _, t := range [...]string{"", "rsa", "RS", "RSA ", "EC", "OKP", "oct", "RSAA"} {
		cases = append(cases, shapeCase{"kty not RSA", "kty", strVal(t), false})
	}
	cases = append(cases, badBase64Cases("e", "AQAB")...)
	cases = append(cases, badBase64Cases("n", string(specB64URL(concreteModulus())))...)
	for _, e := range [...]struct {
		s  string
		ok bool
	}{
		{"AQAB", true},       // 65537
		{"AAEAAQ", true},     // 65537 with a leading zero byte: tolerated on input
		{"AQAD", true},       // 65539
		{"f____w", true},     // 2^31-1
		{"AQAC", false},      // 65538: even
		{"AQAA", false},      // 65536
		{"Aw", false},        // 3
		{"AQ", false},        // 1
		{"AA", false},        // 0
		{"gAAAAQ", false},    // 2^31+1
		{"AQAAAAE", false},   // 2^32+1
		{"AQAAAAAAAAAB", false}, // 2^64+1: not an int64
		{"gAAAAAAAAAE", false},  // 2^63+1: not an int64
	} {
		cases = append(cases, shapeCase{"e value", "e", strVal(e.s), e.ok})
	}
	short := concreteModulus()[1:]
	short[0] = 0xff
	long := append([]byte{0}, concreteModulus()...)
	weak := concreteModulus()
	weak[0] = 0x7f
	cases = append(cases,
		shapeCase{"n of 2040 bits", "n", strVal(string(specB64URL(short))), false},
		shapeCase{"n of 2047 bits", "n", strVal(string(specB64URL(weak))), false},
		shapeCase{"n with a leading zero byte", "n", strVal(string(specB64URL(long))), true})
	cases = append(cases, optionalMemberCases(true)...)
	runShapeCases(func() map[string]*spb.Value { return concreteRSAFields(algName) }, Ed25519SupportNone, cases)
}

// The family-specific functions refuse the other family's names (not reachable through the
// dispatcher).
func VerifH_jwk_import_rsa_direct() {
	i := verifrt.Choice("alg", 3)
	_, err := rsPublicKeyDataFromStruct(&spb.Struct{Fields: concreteRSAFields(jwkAlgNames[famPS][i])})
	verifrt.Assert(err != nil, "rsPublicKeyDataFromStruct refuses a PS name")
	_, err = psPublicKeyDataFromStruct(&spb.Struct{Fields: concreteRSAFields(jwkAlgNames[famRS][i])})
	verifrt.Assert(err != nil, "psPublicKeyDataFromStruct refuses an RS name")
	_, err = rsPublicKeyDataFromStruct(&spb.Struct{Fields: concreteRSAFields(jwkAlgNames[famES][i])})
	verifrt.Assert(err != nil, "rsPublicKeyDataFromStruct refuses an ES name")
	k, err := rsPublicKeyDataFromStruct(&spb.Struct{Fields: concreteRSAFields(jwkAlgNames[famRS][i])})
	verifrt.Assert(err == nil && describeKey(k).fam == famRS && describeKey(k).algIdx == i, "rsPublicKeyDataFromStruct: RS name -> that algorithm")
	k, err = psPublicKeyDataFromStruct(&spb.Struct{Fields: concreteRSAFields(jwkAlgNames[famPS][i])})
	verifrt.Assert(err == nil && describeKey(k).fam == famPS && describeKey(k).algIdx == i, "psPublicKeyDataFromStruct: PS name -> that algorithm")
	for _, s := range []*spb.Struct{nil, {}, {Fields: map[string]*spb.Value{}}} {
		_, e1 := rsPublicKeyDataFromStruct(s)
		_, e2 := psPublicKeyDataFromStruct(s)
		_, e3 := esPublicKeyDataFromStruct(s)
		_, e4 := ed25519PublicKeyDataFromStruct(s)
		verifrt.Assert(e1 != nil && e2 != nil && e3 != nil && e4 != nil, "nil / empty struct: error")
	}
	verifrt.Reach("end")
}

// ---- EC -------------------------------------------------------------------------------------

// esPublicKeyDataFromStruct through keysetKeyFromStruct, well-shaped structs, symbolic
// values. The coordinates are byte strings for curve c (case split):
//   dim 0  alg and crv: any 5 characters each (accepted iff the pair is (ESxxx, its curve)
//          and that curve is c), kty any 2 characters
//   dim 1  use / key_ops / kid present or absent, contents symbolic
//   dim 2  coordinate lengths (L-1, L), (L, L-1), (L+1, L), (L, L+1), (0, L), (L, 0),
//          (L-1, L+1), (L+1, L-1), (0, 2L)
// Accepted iff all of that holds and 04 || x || y passes the curve's point validation (an
// uninterpreted predicate here, asked for exactly that byte string on exactly that curve).
// For the last three length pairs, whose concatenation has the right total length, only
// "accepted => point validation passed" is asserted: the JWK layer does not check the
// width of each coordinate by itself (RFC 7518 6.2.1.2 says it MUST be full size) and
// relies on the re-split point not being on the curve.
func VerifH_jwk_import_ec_values() {
	verifrt.EngineOnly()
	installCodecModel()
	stubPointValidation()
	dim := verifrt.Choice("dim", 3)
	c := verifrt.Choice("curve", 3)
	L := jwkCurves[c].coord
	f := map[string]*spb.Value{}
	want := true

	alg, crv := jwkAlgNames[famES][c], jwkCurves[c].crv
	if dim == 0 {
		alg, crv = string(verifrt.Bytes("alg", 5)), string(verifrt.Bytes("crv", 5))
	}
	f["alg"], f["crv"] = strVal(alg), strVal(crv)
	want = verifrt.And(want, verifrt.And(alg == jwkAlgNames[famES][c], crv == jwkCurves[c].crv))

	kty := string(verifrt.Bytes("kty", 2))
	f["kty"] = strVal(kty)
	want = verifrt.And(want, kty == "EC")

	optOK, hasKid, kid := symOptionalMembers(f, dim == 1)
	want = verifrt.And(want, optOK)

	xl, yl := L, L
	if dim == 2 {
		p := [...][2]int{{L - 1, L}, {L, L - 1}, {L + 1, L}, {L, L + 1}, {0, L}, {L, 0}, {L - 1, L + 1}, {L + 1, L - 1}, {0, 2 * L}}[verifrt.Choice("lens", 9)]
		xl, yl = p[0], p[1]
	}
	x, y := verifrt.Bytes("x", xl), verifrt.Bytes("y", yl)
	f["x"], f["y"] = strVal(base64Encode(x)), strVal(base64Encode(y))
	point := append(append([]byte{4}, x...), y...)
	onCurve := xl+yl == 2*L && specOnCurve(jwkCurves[c].crv, point)
	want = verifrt.And(want, onCurve)

	k, err := keysetKeyFromStruct(spb.NewStructValue(&spb.Struct{Fields: f}), Ed25519SupportNone)
	if xl == L && yl == L || xl+yl != 2*L {
		verifrt.Assert((err == nil) == want, "an EC JWK is imported iff (alg, crv) is a pair of RFC 7518, kty \"EC\", use \"sig\", key_ops [\"verify\"] and 04||x||y is a valid point of that curve")
	} else {
		verifrt.Assert(err != nil || want, "coordinates of the wrong width: imported only if the re-split point passes validation")
	}
	verifrt.Assert((err == nil) == (k != nil), "a key or an error")
	if err != nil || k == nil {
		verifrt.Reach("refused")
		return
	}
	g := describeKey(k)
	verifrt.Assert(g.known && g.fam == famES && g.algIdx == c, "JWT ECDSA key with the algorithm named by alg")
	verifrt.AssertEq(g.point, point, "public point == 04 || decoded x || decoded y")
	checkImportedKID(g, hasKid, kid)
	verifrt.Reach("imported")
}

func concreteECFields(c int) map[string]*spb.Value {
	L := jwkCurves[c].coord
	x, y := make([]byte, L), make([]byte, L)
	for i := range x {
		x[i], y[i] = byte(i), byte(0xff-i) // x starts with a zero byte
	}
	return map[string]*spb.Value{
		"alg":     strVal(jwkAlgNames[famES][c]),
		"crv":     strVal(jwkCurves[c].crv),
		"kty":     strVal("EC"),
		"x":       strVal(string(specB64URL(x))),
		"y":       strVal(string(specB64URL(y))),
		"use":     strVal("sig"),
		"key_ops": listVal(strVal("verify")),
	}
}

// Hostile EC JWKs, all concrete, the real base64Decode included (point validation stubbed:
// every point of the right length is "on the curve").
func VerifH_jwk_import_ec_shapes() {
	verifrt.EngineOnly()
	stubPointValidationAcceptAll()
	c := verifrt.Choice("curve", 3)
	var cases []shapeCase
	for _, m := range [...]string{"alg", "crv", "kty", "x", "y"} {
		cases = append(cases, requiredStringCases(m)...)
	}
	cases = append(cases,
		shapeCase{"private member (string)", "d", strVal("AQAB"), false},
		shapeCase{"private member (number)", "d", spb.NewNumberValue(3), false},
		shapeCase{"private member (null)", "d", spb.NewNullValue(), false},
		shapeCase{"private member (empty)", "d", strVal(""), false})
	for _, a := range [...]string{"", "E", "ES", "ES25", "ES2567", "es256", "ES257", "ES521", "ES256K", "HS256", "RS256", "PS256", "EdDSA", "ECDSA", "ES-256"} {
		cases = append(cases, shapeCase{"alg not an ES name", "alg", strVal(a), false})
	}
	for i := 0; i < 3; i++ {
		if i != c {
			// alg and crv must agree (ES256 <-> P-256, ES384 <-> P-384, ES512 <-> P-521)
			cases = append(cases, shapeCase{"alg of another curve", "alg", strVal(jwkAlgNames[famES][i]), false})
			cases = append(cases, shapeCase{"crv of another algorithm", "crv", strVal(jwkCurves[i].crv), false})
		}
	}
	for _, v := range [...]string{"", "P-25", "P256", "p-256", "P-512", "P-256K", "secp256k1", "secp256r1", "prime256v1", "Ed25519", "X25519", "P-3840"} {
		cases = append(cases, shapeCase{"crv not a supported curve", "crv", strVal(v), false})
	}
	for _, t := range [...]string{"", "ec", "E", "EC ", "RSA", "OKP", "oct", "ECC"} {
		cases = append(cases, shapeCase{"kty not EC", "kty", strVal(t), false})
	}
	good, _ := memString(&spb.Struct{Fields: concreteECFields(c)}, "x")
	cases = append(cases, badBase64Cases("x", good)...)
	cases = append(cases, badBase64Cases("y", good)...)
	cases = append(cases, optionalMemberCases(true)...)
	runShapeCases(func() map[string]*spb.Value { return concreteECFields(c) }, Ed25519SupportNone, cases)
}

func stubPointValidationAcceptAll() {
	for i, name := range [...]string{"P256Point", "P384Point", "P521Point"} {
		coord := jwkCurves[i].coord
		verifrt.Summarize("crypto/internal/fips140/nistec."+name+").SetBytes", func(p any, b []byte) (any, error) {
			if len(b) != 1+2*coord {
				return nil, errSpecB64
			}
			return nil, nil
		})
	}
}

// ---- Ed25519 --------------------------------------------------------------------------------

// ed25519PublicKeyDataFromStruct through keysetKeyFromStruct: symbolic kty (3 characters),
// use, key_ops, x of length 31 / 32 / 33, with and without Ed25519 support, with and without
// a kid (which is not looked at). Imported iff support is on, kty "OKP", crv "Ed25519",
// use/key_ops acceptable and x has 32 bytes; the key is a plain (NO_PREFIX) Ed25519
// verification key with exactly these bytes.
func VerifH_jwk_import_ed25519_values() {
	installCodecModel()
	support := [...]Ed25519SupportType{Ed25519SupportNone, Ed25519SupportTink}[verifrt.Choice("support", 2)]
	f := map[string]*spb.Value{"alg": strVal("EdDSA"), "crv": strVal("Ed25519")}
	want := support == Ed25519SupportTink
	kty := string(verifrt.Bytes("kty", 3))
	f["kty"] = strVal(kty)
	want = verifrt.And(want, kty == "OKP")
	optOK, _, _ := symOptionalMembers(f, true)
	want = verifrt.And(want, optOK)
	xl := [...]int{32, 31, 33, 0}[verifrt.Choice("xlen", 4)]
	x := verifrt.Bytes("x", xl)
	f["x"] = strVal(base64Encode(x))
	want = verifrt.And(want, xl == 32)
	k, err := keysetKeyFromStruct(spb.NewStructValue(&spb.Struct{Fields: f}), support)
	verifrt.Assert((err == nil) == want, "an OKP JWK is imported iff Ed25519 support is on, kty \"OKP\", crv \"Ed25519\", use \"sig\", key_ops [\"verify\"], x of 32 bytes")
	verifrt.Assert((err == nil) == (k != nil), "a key or an error")
	if err != nil || k == nil {
		verifrt.Reach("refused")
		return
	}
	pk, isEd := k.(*ed25519.PublicKey)
	verifrt.Assert(isEd && pk != nil, "an Ed25519 public key")
	if !isEd || pk == nil {
		return
	}
	verifrt.AssertEq(pk.KeyBytes(), x, "key bytes == decoded x")
	id, req := pk.IDRequirement()
	verifrt.Assert(!req && id == 0 && len(pk.OutputPrefix()) == 0, "no id requirement, no output prefix")
	verifrt.Assert(pk.Parameters().(*ed25519.Parameters).Variant() == ed25519.VariantNoPrefix, "NO_PREFIX variant")
	verifrt.Reach("imported")
}

func concreteEdFields() map[string]*spb.Value {
	x := make([]byte, 32)
	for i := range x {
		x[i] = byte(3 * i)
	}
	return map[string]*spb.Value{
		"alg":     strVal("EdDSA"),
		"crv":     strVal("Ed25519"),
		"kty":     strVal("OKP"),
		"x":       strVal(string(specB64URL(x))),
		"use":     strVal("sig"),
		"key_ops": listVal(strVal("verify")),
	}
}

// Hostile OKP JWKs, all concrete, real base64Decode.
func VerifH_jwk_import_ed25519_shapes() {
	var cases []shapeCase
	for _, m := range [...]string{"alg", "crv", "kty", "x"} {
		cases = append(cases, requiredStringCases(m)...)
	}
	for _, v := range [...]string{"", "Ed448", "ed25519", "Ed25519 ", "X25519", "P-256", "Ed2551"} {
		cases = append(cases, shapeCase{"crv not Ed25519", "crv", strVal(v), false})
	}
	for _, t := range [...]string{"", "okp", "OK", "OKP ", "EC", "RSA", "oct"} {
		cases = append(cases, shapeCase{"kty not OKP", "kty", strVal(t), false})
	}
	for _, a := range [...]string{"", "E", "eddsa", "EDDSA", "ES256", "RS256", "HS256", "none"} {
		cases = append(cases, shapeCase{"alg not EdDSA", "alg", strVal(a), false})
	}
	good, _ := memString(&spb.Struct{Fields: concreteEdFields()}, "x")
	cases = append(cases, badBase64Cases("x", good)...)
	cases = append(cases, optionalMemberCases(false)...)
	runShapeCases(concreteEdFields, Ed25519SupportTink, cases)
}

// ---- the dispatcher on things that are not a JWK object -------------------------------------

// keysetKeyFromStruct: an element of "keys" that is not a JSON object, an object without
// members, every alg prefix without a key type: an error.
func VerifH_jwk_import_not_a_key() {
	support := [...]Ed25519SupportType{Ed25519SupportNone, Ed25519SupportTink}[verifrt.Choice("support", 2)]
	vals := []*spb.Value{nil, {}, strVal("RS256"), spb.NewNumberValue(1), spb.NewBoolValue(false), spb.NewNullValue(), listVal(),
		listVal(spb.NewStructValue(&spb.Struct{Fields: concreteRSAFields("RS256")})),
		spb.NewStructValue(nil), spb.NewStructValue(&spb.Struct{}), spb.NewStructValue(&spb.Struct{Fields: map[string]*spb.Value{}}),
		{Kind: &spb.Value_StructValue{}},
	}
	for _, v := range vals {
		k, err := keysetKeyFromStruct(v, support)
		verifrt.Assert(err != nil && k == nil, "not a JWK object: error")
	}
	// two symbolic characters as alg prefix on an otherwise empty object: always an error
	alg := string(verifrt.Bytes("alg", [...]int{2, 3, 5}[verifrt.Choice("alglen", 3)]))
	k, err := keysetKeyFromStruct(spb.NewStructValue(&spb.Struct{Fields: map[string]*spb.Value{"alg": strVal(alg)}}), support)
	verifrt.Assert(err != nil && k == nil, "only alg: error for every alg")
	// Ed25519 JWK with support off
	k, err = keysetKeyFromStruct(spb.NewStructValue(&spb.Struct{Fields: concreteEdFields()}), Ed25519SupportNone)
	verifrt.Assert(err != nil && k == nil, "Ed25519 JWK refused without Ed25519 support")
	verifrt.Reach("end")
}
