package jwk

import (
	"errors"

	"github.com/tink-crypto/tink-go/v2/insecuresecretdataaccess"
	"github.com/tink-crypto/tink-go/v2/internal/internalapi"
	"github.com/tink-crypto/tink-go/v2/internal/verifh"
	"github.com/tink-crypto/tink-go/v2/internal/verifrt"
	"github.com/tink-crypto/tink-go/v2/jwt/jwtecdsa"
	"github.com/tink-crypto/tink-go/v2/jwt/jwtrsassapkcs1"
	"github.com/tink-crypto/tink-go/v2/jwt/jwtrsassapss"
	"github.com/tink-crypto/tink-go/v2/key"
	"github.com/tink-crypto/tink-go/v2/keyset"
	"github.com/tink-crypto/tink-go/v2/secretdata"
	"github.com/tink-crypto/tink-go/v2/signature/ed25519"
	spb "google.golang.org/protobuf/types/known/structpb"
)

// ---------------------------------------------------------------------------------------
// 4. export -> import at struct level
// ---------------------------------------------------------------------------------------

// checkRoundTrip: the key imported from the exported JWK of k (described by d) has the same
// algorithm and key material; its kid is the kid k's signer writes into tokens (k.KID()):
// for a key-id key the unpadded base64url of the big-endian id, now held as a custom kid;
// a key without kid stays without; no id requirement.
func checkRoundTrip(d *jwtKeyDesc, k, k2 key.Key) {
	g := describeKey(k2)
	verifrt.Assert(g.known && g.fam == d.fam && g.algIdx == d.algIdx, "same key type and algorithm")
	if d.fam == famES {
		verifrt.AssertEq(g.point, append(append([]byte{4}, d.x...), d.y...), "same public point")
	} else {
		verifrt.AssertEq(g.modulus, d.modulus, "same modulus")
		verifrt.Assert(g.exponent == d.exponent, "same public exponent")
		verifrt.Assert(g.bits == 8*len(d.modulus), "same modulus size")
	}
	kid, has := keyKID(k)
	verifrt.Assert(g.hasKID == has, "has a kid iff the original key has one")
	verifrt.AssertEq([]byte(g.kid), []byte(kid), "kid == the original key's kid (what its signer puts into the token header)")
	switch d.strat {
	case stratKeyID:
		verifrt.Assert(g.strat == stratCustom && g.hasKID, "key-id key -> custom-kid key")
		verifrt.AssertEq([]byte(g.kid), specKID(d.id), "kid == unpadded base64url of the big-endian key id")
	case stratCustom:
		verifrt.Assert(g.strat == stratCustom && g.hasKID, "custom-kid key -> custom-kid key")
		verifrt.AssertEq([]byte(g.kid), []byte(d.custom), "kid == the custom kid")
	default:
		verifrt.Assert(g.strat == stratNone && !g.hasKID, "key without kid -> key without kid")
	}
	verifrt.Assert(!g.hasID && g.id == 0, "no id requirement after import")
}

func roundTripFamily(fam int) {
	installCodecModel()
	d := symDesc(fam)
	k, err := d.build()
	if err != nil || k == nil {
		verifrt.Assert(fam == famES, "the key constructor accepts the key")
		return // the point oracle refused the point
	}
	s, err := exportKey(k)
	verifrt.Assert(err == nil && s != nil, "export succeeds")
	if err != nil || s == nil {
		return
	}
	k2, err := keysetKeyFromStruct(spb.NewStructValue(s), Ed25519SupportNone)
	verifrt.Assert(err == nil && k2 != nil, "the exported JWK is imported")
	if err != nil || k2 == nil {
		return
	}
	checkRoundTrip(d, k, k2)
	// and once more: export of the imported key is the same JWK (a fixed point)
	s2, err := exportKey(k2)
	verifrt.Assert(err == nil && s2 != nil, "the imported key can be exported again")
	if err == nil && s2 != nil {
		verifrt.Assert(len(s2.Fields) == len(s.Fields), "second export: same members")
		for _, m := range [...]string{"alg", "kty", "crv", "n", "e", "x", "y", "kid", "use"} {
			a, okA := memString(s, m)
			b, okB := memString(s2, m)
			verifrt.Assert(okA == okB, "second export: same members")
			if okA && okB {
				verifrt.AssertEq([]byte(b), []byte(a), "second export: same values")
			}
		}
	}
	verifrt.Reach("round trip")
}

// RS256/384/512 x {key-id, no kid, custom kid}: symbolic 2048-bit modulus (thorough: 3072,
// 4096), exponent, id, custom kid (lengths 0, 1, 7). base64 through the codec model.
func VerifH_jwk_roundtrip_rs() { roundTripFamily(famRS) }

func VerifH_jwk_roundtrip_ps() { roundTripFamily(famPS) }

// ES256/384/512 likewise; symbolic coordinates; point validation is the uninterpreted
// predicate (the same point is asked about on export-side construction and on import).
func VerifH_jwk_roundtrip_es() {
	verifrt.EngineOnly()
	stubPointValidation()
	roundTripFamily(famES)
}

// The same with nothing replaced but the EC point validation: concrete keys, the real
// base64Decode with its rune loop. Ids with leading zero bytes, x with a leading zero byte.
func VerifH_jwk_roundtrip_concrete() {
	verifrt.EngineOnly()
	stubPointValidationAcceptAll()
	fam := verifrt.Choice("fam", 3)
	d := &jwtKeyDesc{fam: fam, algIdx: verifrt.Choice("alg", 3), strat: verifrt.Choice("kid", 3)}
	d.id = [...]uint32{0, 1, 0x0102, 0x00ffffff, 0x01000000, 0xfffffffe}[verifrt.Choice("id", 6)]
	d.custom = "my-kid"
	if fam == famES {
		L := jwkCurves[d.algIdx].coord
		d.x, d.y = make([]byte, L), make([]byte, L)
		for i := 0; i < L; i++ {
			d.x[i], d.y[i] = byte(i), byte(0xff-i)
		}
	} else {
		d.modulus, d.exponent = concreteModulus(), 65537
		for i := 1; i < 255; i++ {
			d.modulus[i] = byte(7 * i)
		}
	}
	k, err := d.build()
	verifrt.Assert(err == nil && k != nil, "key built")
	if err != nil {
		return
	}
	s, err := exportKey(k)
	verifrt.Assert(err == nil && s != nil, "export succeeds")
	if err != nil || s == nil {
		return
	}
	checkExported(s, d)
	k2, err := keysetKeyFromStruct(spb.NewStructValue(s), Ed25519SupportNone)
	verifrt.Assert(err == nil && k2 != nil, "the exported JWK is imported")
	if err != nil || k2 == nil {
		return
	}
	checkRoundTrip(d, k, k2)
	verifrt.Reach("round trip")
}

// ---------------------------------------------------------------------------------------
// 5. handle level: FromPublicKeysetHandle / ToPublicKeysetHandle with the JSON text layer
// (structpb Marshal/UnmarshalJSON, protobuf reflection) replaced by the identity on structs
// ---------------------------------------------------------------------------------------

// kinds of keyset entries in the handle harnesses
const (
	hkESKeyID = iota
	hkESNone
	hkESCustom
	hkRSKeyID
	hkPSCustom
	hkEdTink
	hkEdRaw
	hkESPrivate // a JWT ECDSA private key
	hkRSPrivate // a JWT RSA-SSA-PKCS1 private key
	hkOther     // not a JWT / Ed25519 key at all
	nHandleKinds
)

type handleEntry struct {
	kind   int
	desc   *jwtKeyDesc // JWT public keys
	edKey  []byte      // Ed25519
	id     uint32      // keyset key id
	status keyset.KeyStatus
	key    key.Key
}

func concreteDesc(fam, algIdx, strat int, id uint32, custom string, salt byte) *jwtKeyDesc {
	d := &jwtKeyDesc{fam: fam, algIdx: algIdx, strat: strat, id: id, custom: custom}
	if fam == famES {
		L := jwkCurves[algIdx].coord
		d.x, d.y = make([]byte, L), make([]byte, L)
		for i := 0; i < L; i++ {
			d.x[i], d.y[i] = byte(i)+salt, byte(0xff-i)
		}
		d.x[0] = 0
	} else {
		d.modulus, d.exponent = concreteModulus(), 65537
		d.modulus[1] = salt
	}
	return d
}

// pickHandleEntry chooses kind and status of entry number idx of n; its keyset id is
// symbolic. Keysets of three entries (thorough tier) draw from four representative kinds.
func pickHandleEntry(idx, n int) *handleEntry {
	name := [...]string{"e0", "e1", "e2"}[idx]
	e := &handleEntry{id: verifrt.Uint32(name + ".id")}
	if n <= 2 {
		e.kind = verifrt.Choice(name+".kind", nHandleKinds)
	} else {
		e.kind = [...]int{hkESKeyID, hkEdTink, hkESPrivate, hkOther}[verifrt.Choice(name+".kind3", 4)]
	}
	nStatus := 2 // quick tier: ENABLED / DISABLED; thorough: DESTROYED too
	if verifrt.Thorough() {
		nStatus = 3
	}
	e.status = [...]keyset.KeyStatus{keyset.Enabled, keyset.Disabled, keyset.Destroyed}[verifrt.Choice(name+".status", nStatus)]
	return e
}

// build makes the key object of entry number idx (concrete key material).
func (e *handleEntry) build(idx int) {
	salt := byte(idx + 1)
	var err error
	switch e.kind {
	case hkESKeyID, hkESNone, hkESCustom, hkESPrivate:
		strat := [...]int{hkESKeyID: stratKeyID, hkESNone: stratNone, hkESCustom: stratCustom, hkESPrivate: stratKeyID}[e.kind]
		e.desc = concreteDesc(famES, idx%3, strat, e.id, "es-kid", salt)
		e.key, err = e.desc.build()
		if err == nil && e.kind == hkESPrivate {
			e.key = jwtecdsa.VerifUncheckedPrivateKey(secretdata.NewBytesFromData(make([]byte, jwkCurves[idx%3].coord), insecuresecretdataaccess.Token{}), e.key.(*jwtecdsa.PublicKey))
		}
	case hkRSKeyID, hkRSPrivate:
		e.desc = concreteDesc(famRS, (idx+1)%3, stratKeyID, e.id, "", salt)
		e.key, err = e.desc.build()
		if err == nil && e.kind == hkRSPrivate {
			e.key = jwtrsassapkcs1.VerifUncheckedPrivateKey(e.key.(*jwtrsassapkcs1.PublicKey), []byte{3}, []byte{5}, []byte{7})
		}
	case hkPSCustom:
		e.desc = concreteDesc(famPS, (idx+2)%3, stratCustom, 0, "ps-kid", salt)
		e.key, err = e.desc.build()
	case hkEdTink, hkEdRaw:
		variant, id := ed25519.VariantTink, e.id
		if e.kind == hkEdRaw {
			variant, id = ed25519.VariantNoPrefix, 0
		}
		var p ed25519.Parameters
		p, err = ed25519.NewParameters(variant)
		if err == nil {
			e.edKey = make([]byte, 32)
			for i := range e.edKey {
				e.edKey[i] = byte(i) ^ salt
			}
			e.key, err = ed25519.NewPublicKey(e.edKey, id, p)
		}
	default:
		e.key = &verifh.FKey{Idx: idx, Kind: 0, ID: e.id}
	}
	verifrt.Assert(err == nil && e.key != nil, "harness key built")
	if err != nil {
		verifrt.Assume(false)
	}
}

func (e *handleEntry) exportable(support Ed25519SupportType) bool {
	switch e.kind {
	case hkESPrivate, hkRSPrivate, hkOther:
		return false
	case hkEdTink, hkEdRaw:
		return support == Ed25519SupportTink
	}
	return true
}

func handleMaxKeys() int {
	if verifrt.Thorough() {
		return 3
	}
	return 2
}

// FromPublicKeysetHandle on keysets of 1..2 entries (thorough: also 3 entries of the kinds
// ES key-id / Ed25519 TINK / ES private / unrelated); every entry is one of: a
// JWT ECDSA public key (key-id / no kid / custom kid), an RS key-id key, a PS custom-kid key,
// an Ed25519 public key (TINK / NO_PREFIX variant), a JWT ECDSA private key, a JWT RSA
// private key, a key of an unrelated type; ENABLED / DISABLED (thorough: DESTROYED too); symbolic distinct
// keyset ids; with and without Ed25519 support.
//   - entries that are not ENABLED are left out, whatever they are
//   - an ENABLED private key, an ENABLED key of an unrelated type, an ENABLED Ed25519 key
//     without Ed25519 support: an error and no output at all (export refuses private keys)
//   - otherwise the output is {"keys": [...]} with exactly one JWK per ENABLED entry, in
//     keyset order, with the members of section 2 (JWT keys: kid from the key; Ed25519:
//     kid == base64url(be32(keyset key id)) whatever the key's variant)
func VerifH_jwk_handle_export() {
	verifrt.EngineOnly()
	stubPointValidationAcceptAll()
	var recorded *spb.Struct
	marshalCalls := 0
	verifrt.Summarize("structpb.Struct).MarshalJSON", func(x *spb.Struct) ([]byte, error) {
		recorded = x
		marshalCalls++
		return []byte("<json>"), nil
	})
	support := [...]Ed25519SupportType{Ed25519SupportNone, Ed25519SupportTink}[verifrt.Choice("support", 2)]
	n := 1 + verifrt.Choice("n", handleMaxKeys())
	var entries []*handleEntry
	hasEd := false
	for i := 0; i < n; i++ {
		e := pickHandleEntry(i, n)
		for _, o := range entries {
			verifrt.Assume(o.id != e.id)
		}
		hasEd = hasEd || e.kind == hkEdTink || e.kind == hkEdRaw
		entries = append(entries, e)
	}
	verifrt.Assume(hasEd || support == Ed25519SupportNone) // the flag matters only with an Ed25519 entry
	primary := verifrt.Choice("primary", n)
	verifrt.Assume(entries[primary].status == keyset.Enabled)
	m := keyset.NewManager()
	for i, e := range entries {
		e.build(i)
		_, err := m.AddKeyWithOpts(e.key, internalapi.Token{}, keyset.WithFixedID(e.id), keyset.WithStatus(e.status))
		verifrt.Assert(err == nil, "manager accepts the key")
	}
	verifrt.Assert(m.SetPrimary(entries[primary].id) == nil, "SetPrimary")
	h, err := m.Handle()
	verifrt.Assert(err == nil && h != nil, "Handle()")
	if err != nil || h == nil {
		return
	}

	out, err := FromPublicKeysetHandle(h, support)

	var exported []*handleEntry
	wantErr := false
	for _, e := range entries {
		if e.status != keyset.Enabled {
			continue
		}
		if !e.exportable(support) {
			wantErr = true
			break
		}
		exported = append(exported, e)
	}
	verifrt.Assert((err != nil) == wantErr, "refused iff an ENABLED entry is a private key, an unrelated key, or Ed25519 without support")
	if wantErr {
		verifrt.Assert(out == nil && marshalCalls == 0, "nothing is output when an entry is refused")
		verifrt.Reach("refused")
		return
	}
	if err != nil {
		return
	}
	verifrt.Assert(marshalCalls == 1 && recorded != nil && string(out) == "<json>", "the output is the JSON text of one struct")
	if recorded == nil {
		return
	}
	verifrt.Assert(len(recorded.Fields) == 1, "the JWK set has the single member \"keys\"")
	keysVal, ok := recorded.Fields["keys"]
	verifrt.Assert(ok && keysVal != nil, "\"keys\" present")
	if !ok || keysVal == nil {
		return
	}
	lv, isList := keysVal.Kind.(*spb.Value_ListValue)
	verifrt.Assert(isList && lv.ListValue != nil, "\"keys\" is a list")
	if !isList || lv.ListValue == nil {
		return
	}
	verifrt.Assert(len(lv.ListValue.Values) == len(exported), "one JWK per ENABLED entry")
	if len(lv.ListValue.Values) != len(exported) {
		return
	}
	for i, e := range exported {
		sv, isStruct := lv.ListValue.Values[i].Kind.(*spb.Value_StructValue)
		verifrt.Assert(isStruct && sv.StructValue != nil, "each element is a JSON object")
		if !isStruct || sv.StructValue == nil {
			return
		}
		s := sv.StructValue
		if e.desc != nil {
			checkExported(s, e.desc)
		} else {
			assertMember(s, "kty", []byte("OKP"), "kty == \"OKP\"")
			assertMember(s, "crv", []byte("Ed25519"), "crv == \"Ed25519\"")
			assertMember(s, "alg", []byte("EdDSA"), "alg == \"EdDSA\"")
			assertMember(s, "x", specB64URL(e.edKey), "x == the key bytes")
			assertMember(s, "kid", specKID(e.id), "Ed25519: kid == unpadded base64url of the big-endian keyset key id")
			verifrt.Assert(len(s.Fields) == 7, "Ed25519: kty, crv, alg, x, use, key_ops, kid")
		}
	}
	verifrt.Reach("exported")
}

func importMaxKeys() int {
	if verifrt.Thorough() {
		return 3
	}
	return 2
}

// ToPublicKeysetHandle with UnmarshalJSON replaced by "the parsed document is this struct":
//   - a JSON error, a document without "keys", with "keys" of the wrong kind or empty: error
//   - one element that is not importable (here: a private RSA JWK, or not an object): error,
//     no handle
//   - otherwise a handle with one ENABLED entry per JWK, in order, the last one primary,
//     distinct key ids; every entry's key is the import of its JWK (type, algorithm, kid)
// (fresh key ids come from the randomness model; at most one redraw per key is followed)
func VerifH_jwk_handle_import() {
	verifrt.EngineOnly()
	stubPointValidationAcceptAll()
	verifrt.UnwindAssume(2)
	doc := &spb.Struct{Fields: map[string]*spb.Value{}}
	jsonErr := false
	verifrt.Summarize("structpb.Struct).UnmarshalJSON", func(x *spb.Struct, b []byte) error {
		if jsonErr {
			return errors.New("model: not JSON")
		}
		x.Fields = doc.Fields
		return nil
	})
	support := [...]Ed25519SupportType{Ed25519SupportNone, Ed25519SupportTink}[verifrt.Choice("support", 2)]
	shape := verifrt.Choice("shape", 7)
	var kinds []int
	wantErr := false
	switch shape {
	case 0:
		jsonErr, wantErr = true, true
	case 1:
		wantErr = true // no "keys"
	case 2:
		doc.Fields["keys"], wantErr = strVal("x"), true
	case 3:
		doc.Fields["keys"], wantErr = listVal(), true
	case 4:
		doc.Fields["keys"], wantErr = spb.NewStructValue(&spb.Struct{Fields: concreteRSAFields("RS256")}), true
	case 5:
		doc, wantErr = &spb.Struct{}, true // no members at all
	default:
		n := 1 + verifrt.Choice("n", importMaxKeys())
		var vals []*spb.Value
		for i := 0; i < n; i++ {
			// 0 RS, 1 PS+kid, 2 ES, 3 ES+kid, 4 Ed25519, 5 private RSA JWK, 6 not an object
			k := verifrt.Choice([...]string{"k0", "k1", "k2"}[i], 7)
			kinds = append(kinds, k)
			var f map[string]*spb.Value
			switch k {
			case 0:
				f = concreteRSAFields("RS512")
			case 1:
				f = concreteRSAFields("PS256")
				f["kid"] = strVal("kid-1")
			case 2:
				f = concreteECFields(i % 3)
			case 3:
				f = concreteECFields((i + 1) % 3)
				f["kid"] = strVal("kid-3")
			case 4:
				f = concreteEdFields()
				wantErr = wantErr || support == Ed25519SupportNone
			case 5:
				f = concreteRSAFields("RS256")
				f["d"] = strVal("AQAB")
				wantErr = true
			}
			if k == 6 {
				vals = append(vals, strVal("RS256"))
				wantErr = true
			} else {
				vals = append(vals, spb.NewStructValue(&spb.Struct{Fields: f}))
			}
		}
		doc.Fields["keys"] = listVal(vals...)
	}
	h, err := ToPublicKeysetHandle([]byte("<json>"), support)
	verifrt.Assert((err != nil) == wantErr, "refused iff the document is not a JWK set or one of its keys is not importable")
	verifrt.Assert((err == nil) == (h != nil), "a handle or an error")
	if err != nil || h == nil {
		verifrt.Reach("refused")
		return
	}
	verifrt.Assert(h.Len() == len(kinds), "one entry per JWK")
	if h.Len() != len(kinds) {
		return
	}
	var ids []uint32
	for i, k := range kinds {
		e, err := h.Entry(i)
		verifrt.Assert(err == nil && e != nil, "Entry(i)")
		if err != nil || e == nil {
			return
		}
		verifrt.Assert(e.KeyStatus() == keyset.Enabled, "imported keys are ENABLED")
		verifrt.Assert(e.IsPrimary() == (i == len(kinds)-1), "the last key is the primary")
		for _, o := range ids {
			verifrt.Assert(o != e.KeyID(), "distinct key ids")
		}
		ids = append(ids, e.KeyID())
		g := describeKey(e.Key())
		switch k {
		case 0:
			verifrt.Assert(g.known && g.fam == famRS && g.algIdx == 2 && g.strat == stratNone && !g.hasKID, "RS512 JWK -> RS512 key without kid")
		case 1:
			verifrt.Assert(g.known && g.fam == famPS && g.algIdx == 0 && g.strat == stratCustom && g.kid == "kid-1", "PS256 JWK with kid -> PS256 custom-kid key")
		case 2:
			verifrt.Assert(g.known && g.fam == famES && g.algIdx == i%3 && g.strat == stratNone && !g.hasKID, "ES JWK -> ES key without kid")
		case 3:
			verifrt.Assert(g.known && g.fam == famES && g.algIdx == (i+1)%3 && g.strat == stratCustom && g.kid == "kid-3", "ES JWK with kid -> ES custom-kid key")
		case 4:
			_, isEd := e.Key().(*ed25519.PublicKey)
			verifrt.Assert(isEd, "OKP JWK -> Ed25519 key")
		}
	}
	p, err := h.Primary()
	verifrt.Assert(err == nil && p != nil && p.KeyID() == ids[len(ids)-1], "Primary() is the last key")
	verifrt.Reach("imported")
}

// FromPublicKeysetHandle -> ToPublicKeysetHandle with the JSON text layer as the identity:
// "a public keyset exported to a JWK set and imported back" holds, for every ENABLED entry in
// order, a key with the same algorithm and key material whose kid is the kid the original
// key's signer writes into its tokens. One or two JWT public keys of all families and kid
// strategies, symbolic keyset ids (hence symbolic kids), concrete key material.
func VerifH_jwk_handle_roundtrip() {
	verifrt.EngineOnly()
	stubPointValidationAcceptAll()
	verifrt.UnwindAssume(2)
	var recorded *spb.Struct
	verifrt.Summarize("structpb.Struct).MarshalJSON", func(x *spb.Struct) ([]byte, error) {
		recorded = x
		return []byte("<json>"), nil
	})
	verifrt.Summarize("structpb.Struct).UnmarshalJSON", func(x *spb.Struct, b []byte) error {
		if recorded == nil || string(b) != "<json>" {
			return errors.New("model: not the exported document")
		}
		x.Fields = recorded.Fields
		return nil
	})
	n := 1 + verifrt.Choice("n", 2)
	m := keyset.NewManager()
	var descs []*jwtKeyDesc
	var keys []key.Key
	var ids []uint32
	for i := 0; i < n; i++ {
		name := [...]string{"k0", "k1"}[i]
		fam, strat := verifrt.Choice(name+".fam", 3), verifrt.Choice(name+".kid", 3)
		id := verifrt.Uint32(name + ".id")
		for _, o := range ids {
			verifrt.Assume(o != id)
		}
		d := concreteDesc(fam, (i+fam)%3, strat, id, "custom-"+name, byte(i+1))
		k, err := d.build()
		verifrt.Assert(err == nil && k != nil, "key built")
		if err != nil {
			return
		}
		_, err = m.AddKeyWithOpts(k, internalapi.Token{}, keyset.WithFixedID(id))
		verifrt.Assert(err == nil, "manager accepts the key")
		descs, keys, ids = append(descs, d), append(keys, k), append(ids, id)
	}
	verifrt.Assert(m.SetPrimary(ids[0]) == nil, "SetPrimary")
	h, err := m.Handle()
	verifrt.Assert(err == nil && h != nil, "Handle()")
	if err != nil || h == nil {
		return
	}
	out, err := FromPublicKeysetHandle(h, Ed25519SupportNone)
	verifrt.Assert(err == nil && out != nil, "export succeeds")
	if err != nil {
		return
	}
	h2, err := ToPublicKeysetHandle(out, Ed25519SupportNone)
	verifrt.Assert(err == nil && h2 != nil, "the exported JWK set is imported")
	if err != nil || h2 == nil {
		return
	}
	verifrt.Assert(h2.Len() == n, "same number of keys")
	if h2.Len() != n {
		return
	}
	for i := 0; i < n; i++ {
		e, err := h2.Entry(i)
		verifrt.Assert(err == nil && e != nil, "Entry(i)")
		if err != nil || e == nil {
			return
		}
		checkRoundTrip(descs[i], keys[i], e.Key())
	}
	verifrt.Reach("round trip")
}

var _ = jwtrsassapss.PS256
