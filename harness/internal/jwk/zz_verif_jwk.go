package jwk

import (
	"errors"

	"github.com/tink-crypto/tink-go/v2/internal/verifh"
	"github.com/tink-crypto/tink-go/v2/internal/verifrt"
	"github.com/tink-crypto/tink-go/v2/jwt/jwtecdsa"
	"github.com/tink-crypto/tink-go/v2/jwt/jwtrsassapkcs1"
	"github.com/tink-crypto/tink-go/v2/jwt/jwtrsassapss"
	"github.com/tink-crypto/tink-go/v2/key"
	"github.com/tink-crypto/tink-go/v2/signature/ed25519"
	spb "google.golang.org/protobuf/types/known/structpb"
)

// ---------------------------------------------------------------------------------------
// JWK export / import (RFC 7517 JSON Web Key, RFC 7518 section 6 key parameters, RFC 8037
// for OKP), between the structpb.Struct that the JSON layer produces / consumes and Tink's
// JWT key objects. The JSON text layer itself (structpb Marshal/UnmarshalJSON: protobuf
// reflection) is not executable by the engine and is outside these harnesses; in the
// handle-level harnesses it is replaced by the identity on structs.
//
// The expected members are written here from the RFCs; nothing is taken from jwk.go:
//
//   RSA public key   kty "RSA"; n, e: Base64urlUInt (unpadded base64url of the big-endian
//                    value in the minimum number of octets, RFC 7518 sections 2, 6.3.1)
//   EC public key    kty "EC"; crv "P-256" / "P-384" / "P-521"; x, y: unpadded base64url of
//                    the coordinate as an octet string of the FULL field size (32 / 48 / 66
//                    octets, RFC 7518 section 6.2.1.2 / 6.2.1.3), leading zeros included
//   OKP public key   kty "OKP"; crv "Ed25519"; x: the 32 key bytes (RFC 8037 section 2)
//   alg              RS256/384/512, PS256/384/512, ES256/384/512 (RFC 7518 section 3.1),
//                    "EdDSA" (RFC 8037 section 3.1); ES256<->P-256, ES384<->P-384,
//                    ES512<->P-521
//   use "sig", key_ops ["verify"]  (RFC 7517 sections 4.2, 4.3: a verification key)
//   kid              keys with an id requirement (TINK-style): unpadded base64url of the
//                    four big-endian id bytes - the value the JWT signer of that key writes
//                    into the token header; custom-kid keys: the custom kid; else absent
//   private members  d, p, q, dp, dq, qi, oth (RFC 7518 sections 6.2.2, 6.3.2), k (6.4.1):
//                    never exported; a JWK carrying one is not imported
// ---------------------------------------------------------------------------------------

var jwkAlgNames = [3][3]string{
	{"RS256", "RS384", "RS512"},
	{"PS256", "PS384", "PS512"},
	{"ES256", "ES384", "ES512"},
}

const (
	famRS = 0
	famPS = 1
	famES = 2
)

var jwkCurves = [3]struct {
	crv   string
	coord int
}{
	{"P-256", 32},
	{"P-384", 48},
	{"P-521", 66}, // ES512 uses P-521
}

var jwkPrivateMembers = [...]string{"d", "p", "q", "dp", "dq", "qi", "oth", "k"}

// strategies, in the order used by every Choice("kid", 3) below
const (
	stratKeyID  = 0 // Base64EncodedKeyIDAsKID: the key has an id requirement
	stratNone   = 1 // IgnoredKID
	stratCustom = 2 // CustomKID
)

// ---- key construction through the real constructors ------------------------------------

// stubPointValidation replaces the on-curve check of crypto/ecdh (nistec field arithmetic,
// partly assembly) as in the jwtecdsa kid harness; here the stub keeps SetBytes' length rule
// (an uncompressed point has 1+2L bytes) and answers "on the curve" through an uninterpreted
// predicate of (curve, encoded point), so that refusing an off-curve point stays visible.
// crypto/ecdh's own checks above it (leading byte 4, non-empty) run as real code.
func stubPointValidation() {
	for i, name := range [...]string{"P256Point", "P384Point", "P521Point"} {
		coord, crv := jwkCurves[i].coord, jwkCurves[i].crv
		verifrt.Summarize("crypto/internal/fips140/nistec."+name+").SetBytes", func(p any, b []byte) (any, error) {
			if len(b) != 1+2*coord || !specOnCurve(crv, b) {
				return nil, errors.New("stub: invalid point")
			}
			return nil, nil
		})
	}
}

func specOnCurve(crv string, point []byte) bool {
	return verifrt.UF("ONCURVE-"+crv, 1, point)[0]&1 == 1
}

func mkRSParams(algIdx, strat, bits, exponent int) (*jwtrsassapkcs1.Parameters, error) {
	return jwtrsassapkcs1.NewParameters(jwtrsassapkcs1.ParametersOpts{
		ModulusSizeInBits: bits,
		PublicExponent:    exponent,
		Algorithm:         [...]jwtrsassapkcs1.Algorithm{jwtrsassapkcs1.RS256, jwtrsassapkcs1.RS384, jwtrsassapkcs1.RS512}[algIdx],
		KidStrategy:       [...]jwtrsassapkcs1.KIDStrategy{jwtrsassapkcs1.Base64EncodedKeyIDAsKID, jwtrsassapkcs1.IgnoredKID, jwtrsassapkcs1.CustomKID}[strat],
	})
}

func mkPSParams(algIdx, strat, bits, exponent int) (*jwtrsassapss.Parameters, error) {
	return jwtrsassapss.NewParameters(jwtrsassapss.ParametersOpts{
		ModulusSizeInBits: bits,
		PublicExponent:    exponent,
		Algorithm:         [...]jwtrsassapss.Algorithm{jwtrsassapss.PS256, jwtrsassapss.PS384, jwtrsassapss.PS512}[algIdx],
		KidStrategy:       [...]jwtrsassapss.KIDStrategy{jwtrsassapss.Base64EncodedKeyIDAsKID, jwtrsassapss.IgnoredKID, jwtrsassapss.CustomKID}[strat],
	})
}

// jwtKeyDesc is what a harness knows about the key it built (and expects to see again).
type jwtKeyDesc struct {
	fam, algIdx, strat int
	modulus            []byte // RSA
	exponent           int    // RSA
	x, y               []byte // EC
	id                 uint32 // stratKeyID
	custom             string // stratCustom
}

// build goes through NewParameters / NewPublicKey of the key's package.
func (d *jwtKeyDesc) build() (key.Key, error) {
	id, custom := uint32(0), ""
	if d.strat == stratKeyID {
		id = d.id
	}
	if d.strat == stratCustom {
		custom = d.custom
	}
	switch d.fam {
	case famRS:
		p, err := mkRSParams(d.algIdx, d.strat, 8*len(d.modulus), d.exponent)
		if err != nil {
			return nil, err
		}
		return jwtrsassapkcs1.NewPublicKey(jwtrsassapkcs1.PublicKeyOpts{Modulus: d.modulus, IDRequirement: id, Parameters: p, HasCustomKID: d.strat == stratCustom, CustomKID: custom})
	case famPS:
		p, err := mkPSParams(d.algIdx, d.strat, 8*len(d.modulus), d.exponent)
		if err != nil {
			return nil, err
		}
		return jwtrsassapss.NewPublicKey(jwtrsassapss.PublicKeyOpts{Modulus: d.modulus, IDRequirement: id, Parameters: p, HasCustomKID: d.strat == stratCustom, CustomKID: custom})
	}
	p, err := jwtecdsa.NewParameters([...]jwtecdsa.KIDStrategy{jwtecdsa.Base64EncodedKeyIDAsKID, jwtecdsa.IgnoredKID, jwtecdsa.CustomKID}[d.strat],
		[...]jwtecdsa.Algorithm{jwtecdsa.ES256, jwtecdsa.ES384, jwtecdsa.ES512}[d.algIdx])
	if err != nil {
		return nil, err
	}
	point := append(append([]byte{4}, d.x...), d.y...)
	return jwtecdsa.NewPublicKey(jwtecdsa.PublicKeyOpts{PublicPoint: point, IDRequirement: id, Parameters: p, HasCustomKID: d.strat == stratCustom, CustomKID: custom})
}

// export calls the per-key conversion function that FromPublicKeysetHandle dispatches to.
func exportKey(k key.Key) (*spb.Struct, error) {
	switch k := k.(type) {
	case *jwtrsassapkcs1.PublicKey:
		return rsPublicKeyToStruct(k)
	case *jwtrsassapss.PublicKey:
		return psPublicKeyToStruct(k)
	case *jwtecdsa.PublicKey:
		return esPublicKeyToStruct(k)
	}
	return nil, errors.New("harness: not a JWT public key")
}

// the kid a token signed with the key carries, per the key object's own accessor
func keyKID(k key.Key) (string, bool) {
	switch k := k.(type) {
	case *jwtrsassapkcs1.PublicKey:
		return k.KID()
	case *jwtrsassapss.PublicKey:
		return k.KID()
	case *jwtecdsa.PublicKey:
		return k.KID()
	}
	return "", false
}

// ---- symbolic key material -------------------------------------------------------------

func rsaModulusLen() int {
	if verifrt.Thorough() {
		return [...]int{256, 384, 512}[verifrt.Choice("modlen", 3)]
	}
	return 256
}

// symModulus: every byte symbolic, top bit set (an n-byte modulus of exactly 8n bits, the
// only shape the key constructors accept for ModulusSizeInBits = 8n).
func symModulus(n int) []byte {
	m := verifrt.Bytes("modulus", n)
	verifrt.Assume(m[0] >= 0x80)
	return m
}

// symExponent: every odd value in [65537, 2^31-1] (the range the parameter constructors
// accept).
func symExponent() int {
	e := int(verifrt.Uint32("exponent"))
	verifrt.Assume(e >= 65537 && e <= 1<<31-1 && e&1 == 1)
	return e
}

// specKID: RFC 4648 section 5 without padding of the four big-endian id bytes, in the table
// form (== verifh.SpecKID(id), the range form shared with the jwt* harnesses, for every id:
// VerifH_jwk_b64_alphabet; the table form costs no solver time against the implementation).
func specKID(id uint32) []byte {
	return specB64URL([]byte{byte(id >> 24), byte(id >> 16), byte(id >> 8), byte(id)})
}

// specUIntBytes: big-endian, minimum number of octets (value >= 1 here).
func specUIntBytes(v int) []byte {
	switch {
	case v < 1<<8:
		return []byte{byte(v)}
	case v < 1<<16:
		return []byte{byte(v >> 8), byte(v)}
	case v < 1<<24:
		return []byte{byte(v >> 16), byte(v >> 8), byte(v)}
	}
	return []byte{byte(v >> 24), byte(v >> 16), byte(v >> 8), byte(v)}
}

func symCustomKID() string {
	return string(verifrt.Bytes("customkid", [...]int{0, 1, 7}[verifrt.Choice("kidlen", 3)]))
}

// symCoord: a coordinate of n symbolic bytes. Thorough tier: unconstrained (any number of
// leading zero bytes; math/big's normalisation then forks per leading zero word). Quick
// tier: the two shapes that matter for a fixed-width encoding - no leading zero byte, and
// exactly one.
func symCoord(name string, n int) []byte {
	b := verifrt.Bytes(name, n)
	if !verifrt.Thorough() {
		if verifrt.Choice(name+".lead", 2) == 0 {
			verifrt.Assume(b[0] != 0)
		} else {
			verifrt.Assume(b[0] == 0 && b[1] != 0)
		}
	}
	return b
}

func symDesc(fam int) *jwtKeyDesc {
	d := &jwtKeyDesc{fam: fam, algIdx: verifrt.Choice("alg", 3), strat: verifrt.Choice("kid", 3)}
	switch d.strat {
	case stratKeyID:
		d.id = verifrt.Uint32("id")
	case stratCustom:
		d.custom = symCustomKID()
	}
	if fam == famES {
		c := jwkCurves[d.algIdx].coord
		d.x, d.y = symCoord("x", c), symCoord("y", c)
	} else {
		d.modulus = symModulus(rsaModulusLen())
		d.exponent = symExponent()
	}
	return d
}

// ---- reading a struct without the code under test's helpers ------------------------------

func memString(s *spb.Struct, name string) (string, bool) {
	v, ok := s.Fields[name]
	if !ok || v == nil {
		return "", false
	}
	sv, ok := v.Kind.(*spb.Value_StringValue)
	if !ok {
		return "", false
	}
	return sv.StringValue, true
}

func assertMember(s *spb.Struct, name string, want []byte, msg string) {
	got, ok := memString(s, name)
	verifrt.Assert(ok, msg+": member present and a JSON string")
	if ok {
		verifrt.AssertEq([]byte(got), want, msg)
	}
}

// checkExported states the complete content of an exported JWK for the key described by d.
func checkExported(s *spb.Struct, d *jwtKeyDesc) {
	members := 0
	assertMember(s, "alg", []byte(jwkAlgNames[d.fam][d.algIdx]), "alg is the RFC 7518 name of the key's algorithm")
	assertMember(s, "use", []byte("sig"), "use == \"sig\"")
	members += 2
	ops, ok := s.Fields["key_ops"]
	verifrt.Assert(ok && ops != nil, "key_ops present")
	if ok && ops != nil {
		lv, isList := ops.Kind.(*spb.Value_ListValue)
		verifrt.Assert(isList && lv.ListValue != nil && len(lv.ListValue.Values) == 1, "key_ops is a list of one element")
		if isList && lv.ListValue != nil && len(lv.ListValue.Values) == 1 {
			sv, isStr := lv.ListValue.Values[0].Kind.(*spb.Value_StringValue)
			verifrt.Assert(isStr && sv.StringValue == "verify", "key_ops == [\"verify\"]")
		}
	}
	members++
	if d.fam == famES {
		c := jwkCurves[d.algIdx]
		assertMember(s, "kty", []byte("EC"), "kty == \"EC\"")
		assertMember(s, "crv", []byte(c.crv), "crv is the curve RFC 7518 assigns to the algorithm")
		assertMember(s, "x", specB64URL(d.x), "x == unpadded base64url of the fixed-width x coordinate")
		assertMember(s, "y", specB64URL(d.y), "y == unpadded base64url of the fixed-width y coordinate")
		if x, ok := memString(s, "x"); ok {
			verifrt.Assert(len(x) == (8*c.coord+5)/6, "x has the full field width (43 / 64 / 88 characters)")
		}
		if y, ok := memString(s, "y"); ok {
			verifrt.Assert(len(y) == (8*c.coord+5)/6, "y has the full field width (43 / 64 / 88 characters)")
		}
		members += 4
	} else {
		assertMember(s, "kty", []byte("RSA"), "kty == \"RSA\"")
		assertMember(s, "n", specB64URL(d.modulus), "n == unpadded base64url of the big-endian modulus")
		assertMember(s, "e", specB64URL(specUIntBytes(d.exponent)), "e == unpadded base64url of the big-endian exponent without leading zero bytes")
		members += 3
	}
	switch d.strat {
	case stratKeyID:
		assertMember(s, "kid", specKID(d.id), "key-id key: kid == unpadded base64url of the big-endian key id")
		members++
	case stratCustom:
		assertMember(s, "kid", []byte(d.custom), "custom-kid key: kid == the custom kid")
		members++
	default:
		_, has := s.Fields["kid"]
		verifrt.Assert(!has, "no kid member for a key without kid")
	}
	verifrt.Assert(len(s.Fields) == members, "no other members than those listed")
	for _, name := range jwkPrivateMembers {
		_, has := s.Fields[name]
		verifrt.Assert(!has, "no private-key member in an exported JWK")
	}
}

// ---------------------------------------------------------------------------------------
// 2. export: key object -> JWK members
// ---------------------------------------------------------------------------------------

func exportFamily(fam int) {
	d := symDesc(fam)
	k, err := d.build()
	if fam == famES {
		// the point oracle decides; a refused point gives no key to export
		if err != nil {
			return
		}
	}
	verifrt.Assert(err == nil && k != nil, "the key constructor accepts the key")
	if err != nil || k == nil {
		return
	}
	s, err := exportKey(k)
	verifrt.Assert(err == nil && s != nil, "export succeeds")
	if err != nil || s == nil {
		return
	}
	checkExported(s, d)
	// the exported kid is what the key's own accessor reports (what the signer writes)
	kid, has := keyKID(k)
	got, ok := memString(s, "kid")
	verifrt.Assert(ok == has, "kid member present iff the key has a kid")
	if ok && has {
		verifrt.AssertEq([]byte(got), []byte(kid), "exported kid == key.KID()")
	}
	verifrt.Reach("exported")
}

// rsPublicKeyToStruct: RS256/384/512 x three kid strategies; every 2048-bit modulus
// (thorough: also 3072 and 4096 bits), every admissible exponent, every key id, custom kids
// of length 0, 1, 7.
func VerifH_jwk_export_rs() { exportFamily(famRS) }

// psPublicKeyToStruct: the same for PS256/384/512.
func VerifH_jwk_export_ps() { exportFamily(famPS) }

// esPublicKeyToStruct: ES256/384/512 x three kid strategies; every pair of coordinates of
// the curve's byte width (leading zero bytes included; on-curve check stubbed).
func VerifH_jwk_export_es() {
	verifrt.EngineOnly()
	stubPointValidation()
	exportFamily(famES)
}

// ed25519PublicKeyToStruct: OKP / Ed25519 / EdDSA members; the kid is the one handed in
// (FromPublicKeysetHandle passes keyIDToKID(keyset key id)), never the key's own id
// requirement; every variant of the key.
func VerifH_jwk_export_ed25519() {
	variant := [...]ed25519.Variant{ed25519.VariantTink, ed25519.VariantCrunchy, ed25519.VariantLegacy, ed25519.VariantNoPrefix}[verifrt.Choice("variant", 4)]
	params, err := ed25519.NewParameters(variant)
	verifrt.Assert(err == nil, "ed25519.NewParameters")
	if err != nil {
		return
	}
	id := uint32(0)
	if params.HasIDRequirement() {
		id = verifrt.Uint32("id")
	}
	kb := verifrt.Bytes("keybytes", 32)
	k, err := ed25519.NewPublicKey(kb, id, params)
	verifrt.Assert(err == nil && k != nil, "ed25519.NewPublicKey")
	if err != nil {
		return
	}
	var kidArg *string
	kidStr := ""
	if verifrt.Choice("withkid", 2) == 1 {
		kidStr = string(verifrt.Bytes("kidarg", [...]int{0, 6}[verifrt.Choice("kidlen", 2)]))
		kidArg = &kidStr
	}
	s, err := ed25519PublicKeyToStruct(k, kidArg)
	verifrt.Assert(err == nil && s != nil, "export succeeds")
	if err != nil || s == nil {
		return
	}
	assertMember(s, "kty", []byte("OKP"), "kty == \"OKP\"")
	assertMember(s, "crv", []byte("Ed25519"), "crv == \"Ed25519\"")
	assertMember(s, "alg", []byte("EdDSA"), "alg == \"EdDSA\"")
	assertMember(s, "use", []byte("sig"), "use == \"sig\"")
	assertMember(s, "x", specB64URL(kb), "x == unpadded base64url of the 32 key bytes")
	ops := s.Fields["key_ops"].GetListValue().GetValues()
	verifrt.Assert(len(ops) == 1, "key_ops has one element")
	if len(ops) == 1 {
		sv, isStr := ops[0].Kind.(*spb.Value_StringValue)
		verifrt.Assert(isStr && sv.StringValue == "verify", "key_ops == [\"verify\"]")
	}
	want := 6
	if kidArg != nil {
		assertMember(s, "kid", []byte(kidStr), "kid == the kid handed in")
		want++
	} else {
		_, has := s.Fields["kid"]
		verifrt.Assert(!has, "no kid member")
	}
	verifrt.Assert(len(s.Fields) == want, "no other members")
	for _, name := range jwkPrivateMembers {
		_, has := s.Fields[name]
		verifrt.Assert(!has, "no private-key member in an exported JWK")
	}
	verifrt.Reach("exported")
}

// setKeyID: id requirement -> kid of the id (custom kid refused); no id requirement ->
// the custom kid if any, else no kid member. Every id, all four combinations.
func VerifH_jwk_setKeyID() {
	id := verifrt.Uint32("id")
	hasID := verifrt.Choice("hasid", 2) == 1
	var custom *string
	cs := ""
	if verifrt.Choice("custom", 2) == 1 {
		cs = symCustomKID()
		custom = &cs
	}
	s := &spb.Struct{Fields: map[string]*spb.Value{}}
	err := setKeyID(s, id, hasID, custom)
	verifrt.Assert((err != nil) == (hasID && custom != nil), "refused iff a key with id requirement carries a custom kid")
	switch {
	case err != nil:
		verifrt.Assert(len(s.Fields) == 0, "nothing written on refusal")
	case hasID:
		assertMember(s, "kid", verifh.SpecKID(id), "kid == unpadded base64url of the big-endian key id")
		verifrt.Assert(len(s.Fields) == 1, "only kid written")
	case custom != nil:
		assertMember(s, "kid", []byte(cs), "kid == custom kid")
		verifrt.Assert(len(s.Fields) == 1, "only kid written")
	default:
		verifrt.Assert(len(s.Fields) == 0, "no kid")
	}
	verifrt.Reach("end")
}
