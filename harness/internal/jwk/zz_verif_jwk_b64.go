package jwk

import (
	"encoding/base64"
	"errors"

	"github.com/tink-crypto/tink-go/v2/internal/verifh"
	"github.com/tink-crypto/tink-go/v2/internal/verifrt"
)

// ---------------------------------------------------------------------------------------
// RFC 4648 section 5 ("base64url": alphabet A-Z a-z 0-9 - _), without padding (RFC 7515
// section 2 / appendix C), written out here. encoding/base64 is not used by the reference.
// Both directions are straight-line code over side-effect-free conditions, so that the
// engine builds one term per character instead of forking.
// ---------------------------------------------------------------------------------------

// RFC 4648 table 2 ("The URL and Filename safe Base 64 Alphabet"), values 0..63 in order.
const specB64Alphabet = "ABCDEFGHIJKLMNOPQRSTUVWXYZ" + "abcdefghijklmnopqrstuvwxyz" + "0123456789" + "-_"

// specB64Inverse: character -> its index in the table, 0xff for every other byte value.
var specB64Inverse = func() (t [256]byte) {
	for i := range t {
		t[i] = 0xff
	}
	for i := 0; i < len(specB64Alphabet); i++ {
		t[specB64Alphabet[i]] = byte(i)
	}
	return
}()

// specB64Char: the same table as range arithmetic (0..25 'A'.., 26..51 'a'.., 52..61 '0'..,
// 62 '-', 63 '_'). The table form is what the long-string references use (a look-up by a
// symbolic 6-bit group then has the same term shape as the implementation's and needs no
// solver; the arithmetic form over several hundred characters takes minutes);
// VerifH_jwk_b64_alphabet ties the two forms together.
func specB64Char(v uint32) byte {
	c := v + 'A'
	if v >= 26 {
		c = v - 26 + 'a'
	}
	if v >= 52 {
		c = v - 52 + '0'
	}
	if v == 62 {
		c = '-'
	}
	if v == 63 {
		c = '_'
	}
	return byte(c)
}

// specB64URL: the bit string of b is cut into 6-bit groups from the most significant end;
// an incomplete last group is filled with zero bits; no '=' is appended.
func specB64URL(b []byte) []byte {
	out := make([]byte, 0, (len(b)*8+5)/6)
	for i := 0; i < len(b); i += 3 {
		var w uint32
		n := 0
		for j := 0; j < 3; j++ {
			w <<= 8
			if i+j < len(b) {
				w |= uint32(b[i+j])
				n++
			}
		}
		chars := n + 1 // 1 byte -> 2 chars, 2 -> 3, 3 -> 4
		for j := 0; j < chars; j++ {
			out = append(out, specB64Alphabet[(w>>(18-6*uint(j)))&63])
		}
	}
	return out
}

// specB64InAlphabet: c is one of the 64 characters of the URL-safe alphabet (range form).
func specB64InAlphabet(c byte) bool {
	upper := verifrt.And(c >= 'A', c <= 'Z')
	lower := verifrt.And(c >= 'a', c <= 'z')
	digit := verifrt.And(c >= '0', c <= '9')
	return verifrt.Or(verifrt.Or(upper, lower), verifrt.Or(digit, verifrt.Or(c == '-', c == '_')))
}

var errSpecB64 = errors.New("spec: not an unpadded base64url string")

// specB64URLDecode: the decoder the JWK code documents ("URL safe base64 ... ignoring
// padding"): every character must belong to the alphabet ('=', '+', '/', white space, line
// breaks and anything non-ASCII are refused); a length of 4k+1 characters encodes nothing;
// the 6-bit groups are concatenated and cut into bytes; the (at most four) surplus bits of
// the last character are not inspected (RFC 4648 section 3.5 leaves that to the decoder;
// Go's non-strict mode ignores them).
func specB64URLDecode(s string) ([]byte, error) {
	bad := false
	out := make([]byte, 0, len(s)*6/8)
	for i := 0; i < len(s); i += 4 {
		var w uint32
		n := 0
		for j := 0; j < 4; j++ {
			w <<= 6
			if i+j < len(s) {
				v := specB64Inverse[s[i+j]]
				bad = verifrt.Or(bad, v == 0xff)
				w |= uint32(v & 63)
				n++
			}
		}
		for j := 0; j < n-1; j++ { // 2 chars -> 1 byte, 3 -> 2, 4 -> 3
			out = append(out, byte(w>>(16-8*uint(j))))
		}
	}
	if bad || len(s)%4 == 1 {
		return nil, errSpecB64
	}
	return out, nil
}

// ---------------------------------------------------------------------------------------
// 1. kid of a key id
// ---------------------------------------------------------------------------------------

// keyIDToKID(id) is the unpadded base64url encoding of the four big-endian bytes of id, for
// every 32-bit id: always six characters, ids below 2^24 keep their leading zero bytes
// ("AAAA.."), equal to the arithmetic reference shared with the jwt* key packages
// (verifh.SpecKID) and to the general arithmetic encoder of this file.
func VerifH_jwk_kid() {
	id := verifrt.Uint32("id")
	kid := keyIDToKID(id)
	verifrt.Assert(kid != nil, "keyIDToKID returns a string")
	if kid == nil {
		return
	}
	verifrt.Assert(len(*kid) == 6, "a kid has six characters for every id (leading zero bytes are kept)")
	verifrt.AssertEq([]byte(*kid), verifh.SpecKID(id), "keyIDToKID(id) == unpadded base64url of the big-endian 32-bit id")
	be := []byte{byte(id >> 24), byte(id >> 16), byte(id >> 8), byte(id)}
	verifrt.AssertEq([]byte(*kid), specB64URL(be), "keyIDToKID(id) == RFC 4648 section 5 encoding of be32(id)")
	if id < 1<<24 {
		verifrt.Assert((*kid)[0] == 'A', "id < 2^24: the leading zero byte is encoded")
	}
	verifrt.Reach("end")
}

// The two forms of the reference alphabet agree: table look-up == range arithmetic for every
// 6-bit group, the inverse table is defined exactly on the range form's 64 characters and
// inverts the table, and the general encoder specialises to the 32-bit key id reference
// shared with the jwt* packages.
func VerifH_jwk_b64_alphabet() {
	v := verifrt.Uint32("v") & 63
	verifrt.Assert(specB64Alphabet[v] == specB64Char(v), "RFC 4648 table 2: look-up form == range form")
	verifrt.Assert(uint32(specB64Inverse[specB64Alphabet[v]]) == v, "inverse table inverts the alphabet")
	c := verifrt.Byte("c")
	verifrt.Assert((specB64Inverse[c] != 0xff) == specB64InAlphabet(c), "inverse table is defined exactly on A-Z a-z 0-9 - _")
	if specB64Inverse[c] != 0xff {
		verifrt.Assert(specB64Alphabet[specB64Inverse[c]] == c, "alphabet inverts the inverse table")
	}
	id := verifrt.Uint32("id")
	verifrt.AssertEq(specB64URL([]byte{byte(id >> 24), byte(id >> 16), byte(id >> 8), byte(id)}), verifh.SpecKID(id), "general reference encoder on be32(id) == verifh.SpecKID(id)")
	verifrt.Reach("end")
}

// ---------------------------------------------------------------------------------------
// 1b. base64Encode / base64Decode
// ---------------------------------------------------------------------------------------

func b64MaxBytes() int {
	if verifrt.Thorough() {
		return 9
	}
	return 6
}

// base64Encode(p) == RFC 4648 section 5 without padding, for every byte string of length
// 0..5 (thorough 0..8), and the reference decoder inverts it.
func VerifH_jwk_b64_encode() {
	n := verifrt.Choice("n", b64MaxBytes())
	p := verifrt.Bytes("p", n)
	s := base64Encode(p)
	verifrt.Assert(len(s) == (8*n+5)/6, "unpadded length: ceil(8n/6) characters")
	verifrt.AssertEq([]byte(s), specB64URL(p), "base64Encode == RFC 4648 section 5 without padding")
	d, err := specB64URLDecode(s)
	verifrt.Assert(err == nil, "the reference decoder accepts every encoding")
	verifrt.AssertEq(d, p, "reference decoder inverts base64Encode")
	verifrt.Reach("end")
}

// isValidURLsafeBase64Char(c) holds exactly for the 64 characters of the URL-safe alphabet,
// for every 32-bit rune (in particular not for '=', '+', '/', '\n', '\r', ' ', U+FFFD).
func VerifH_jwk_b64_validchar() {
	c := int32(verifrt.Uint32("c"))
	want := false
	if c >= 0 && c < 128 {
		want = specB64InAlphabet(byte(c))
	}
	verifrt.Assert(isValidURLsafeBase64Char(rune(c)) == want, "isValidURLsafeBase64Char == membership in A-Z a-z 0-9 - _")
	verifrt.Reach("end")
}

// string lengths of the standard-decoder comparison: the standard decoder takes its
// 4-character fast path from 6 characters on and its 8-character fast path from 11 on.
func b64Chars() int {
	if verifrt.Thorough() {
		return verifrt.Choice("n", 18)
	}
	return [...]int{0, 1, 2, 3, 4, 5, 6, 7, 8, 11}[verifrt.Choice("n", 10)]
}

// Go's base64.URLEncoding.WithPadding(NoPadding).DecodeString, the decoder base64Decode
// hands a checked string to, equals the arithmetic reference on every string over the
// alphabet of length 0..8 and 11 (thorough 0..17; this covers the 8-character and 4-character
// fast paths of the standard decoder and every tail length after them).
func VerifH_jwk_b64_decode_std() {
	n := b64Chars()
	raw := verifrt.Bytes("s", n)
	ok := true
	for i := 0; i < n; i++ {
		ok = verifrt.And(ok, specB64Inverse[raw[i]] != 0xff) // == specB64InAlphabet, see VerifH_jwk_b64_alphabet
	}
	verifrt.Assume(ok) // base64Decode has refused everything else before
	s := string(raw)
	got, gerr := base64.URLEncoding.WithPadding(base64.NoPadding).DecodeString(s)
	want, werr := specB64URLDecode(s)
	verifrt.Assert((gerr == nil) == (werr == nil), "standard decoder and reference accept the same alphabet strings (all but 4k+1 characters)")
	verifrt.Assert((werr == nil) == (n%4 != 1), "exactly the lengths 4k+1 are refused")
	if gerr == nil && werr == nil {
		verifrt.AssertEq(got, want, "standard decoder == reference decoder")
		verifrt.Reach("decoded")
	}
	verifrt.Reach("end")
}

// The real base64Decode, rune loop included, on concrete strings: for every byte value at
// every position of strings of 2, 3, 4 and 6 characters the string is accepted iff the byte
// belongs to the alphabet, and then decodes to the reference value. In particular the
// characters the standard decoder would skip ('\n', '\r') or treat as padding ('='), the
// standard-alphabet characters '+' and '/', bytes >= 0x80 (invalid UTF-8, decoded to U+FFFD)
// and well-formed multi-byte runes are refused.
func VerifH_jwk_b64_decode_real() {
	base := [...]string{"AQ", "AQA", "AQAB", "AQABAg"}
	for _, b := range base {
		for pos := 0; pos < len(b); pos++ {
			for c := 0; c < 256; c++ {
				raw := []byte(b)
				raw[pos] = byte(c)
				s := string(raw)
				got, err := base64Decode(s)
				if specB64InAlphabet(byte(c)) {
					want, werr := specB64URLDecode(s)
					verifrt.Assert(err == nil && werr == nil, "alphabet string accepted")
					verifrt.AssertEq(got, want, "base64Decode == reference on concrete strings")
				} else {
					verifrt.Assert(err != nil && got == nil, "a character outside the URL-safe alphabet is refused")
				}
			}
		}
	}
	for _, s := range [...]string{"A", "AQABA", "AQABAgMEB"} {
		_, err := base64Decode(s)
		verifrt.Assert(err != nil, "4k+1 characters are refused")
	}
	for _, s := range [...]string{"AQ==", "AQA=", "AQAB=", "=", "AQ=", "A Q", "AQ\n", "\nAQ", "AQ\r\n", "A\rQ", "A+AB", "A/AB", "AQ.B", "AQ AB", "AQAB ", "\x00AQ", "AQ\x00",
		"Aé", "éAQ", "A�Q", "A Q", "AQ\U0001F600", "\xff", "A\xc3", "\xc0\x80AQ", "AQ\xed\xa0\x80"} {
		got, err := base64Decode(s)
		verifrt.Assert(err != nil && got == nil, "padding, white space, line breaks, standard-alphabet and non-ASCII characters are refused")
	}
	for _, tc := range [...]struct {
		s    string
		want []byte
	}{
		{"", []byte{}},
		{"AQAB", []byte{1, 0, 1}},
		{"_-8", []byte{0xff, 0xef}},
		{"AAAAAQ", []byte{0, 0, 0, 1}},
		{"AAECAwQFBgcICQoLDA0ODw", []byte{0, 1, 2, 3, 4, 5, 6, 7, 8, 9, 10, 11, 12, 13, 14, 15}},
	} {
		got, err := base64Decode(tc.s)
		verifrt.Assert(err == nil, "known answers accepted")
		verifrt.AssertEq(got, tc.want, "known answers (RFC 7518 appendix style)")
		verifrt.Assert(base64Encode(tc.want) == tc.s, "known answers: encoder")
	}
	verifrt.Reach("end")
}
