package protoserialization

import (
	"github.com/tink-crypto/tink-go/v2/key"
	"github.com/tink-crypto/tink-go/v2/internal/verifrt"
	"github.com/tink-crypto/tink-go/v2/internal/verifspec"
	tinkpb "github.com/tink-crypto/tink-go/v2/proto/tink_go_proto"
)

// Fallback keys (key types without a registered parser: KMS, custom key managers). For every
// output prefix type (all enum values and an out-of-range one), symbolic id and key material:
// the key reports an ID requirement exactly when its prefix type is not RAW, with exactly its
// id; its output prefix is the standard one; what the fallback serializer hands out is a deep
// copy (the caller cannot reach the key's own bytes through it); Equal is by content.
func VerifH_fallback_key() {
	pt := [...]tinkpb.OutputPrefixType{tinkpb.OutputPrefixType_UNKNOWN_PREFIX, tinkpb.OutputPrefixType_TINK, tinkpb.OutputPrefixType_LEGACY, tinkpb.OutputPrefixType_RAW, tinkpb.OutputPrefixType_CRUNCHY, 7}[verifrt.Choice("prefix", 6)]
	id := verifrt.Uint32("id")
	mt := [...]tinkpb.KeyData_KeyMaterialType{tinkpb.KeyData_SYMMETRIC, tinkpb.KeyData_ASYMMETRIC_PRIVATE, tinkpb.KeyData_ASYMMETRIC_PUBLIC, tinkpb.KeyData_REMOTE}[verifrt.Choice("material", 4)]
	val := verifrt.Bytes("value", verifrt.Choice("n", 3))
	kd := &tinkpb.KeyData{TypeUrl: "type.googleapis.com/custom.Key", Value: val, KeyMaterialType: mt}
	ks, err := NewKeySerialization(kd, pt, id)
	verifrt.Assert((err == nil) == !(pt == tinkpb.OutputPrefixType_RAW && id != 0), "NewKeySerialization refuses only RAW with a non-zero id")
	if err != nil {
		verifrt.Reach("badserialization")
		return
	}
	k, err := NewFallbackProtoKey(ks)
	known := pt == tinkpb.OutputPrefixType_TINK || pt == tinkpb.OutputPrefixType_LEGACY || pt == tinkpb.OutputPrefixType_CRUNCHY || pt == tinkpb.OutputPrefixType_RAW
	verifrt.Assert((err == nil) == known, "NewFallbackProtoKey accepts exactly the four known prefix types")
	if err != nil {
		verifrt.Reach("unknownprefix")
		return
	}
	gotID, req := k.IDRequirement()
	verifrt.Assert(req == (pt != tinkpb.OutputPrefixType_RAW), "ID requirement iff the prefix type is not RAW (TINK, LEGACY and CRUNCHY all bind the id)")
	verifrt.Assert(gotID == id, "the required id is the serialization's id")
	verifrt.Assert(k.Parameters().HasIDRequirement() == req, "parameters agree with the key about the ID requirement")
	kind := map[tinkpb.OutputPrefixType]int{tinkpb.OutputPrefixType_TINK: 0, tinkpb.OutputPrefixType_CRUNCHY: 1, tinkpb.OutputPrefixType_LEGACY: 2, tinkpb.OutputPrefixType_RAW: 3}[pt]
	verifrt.AssertEq(k.OutputPrefix(), verifspec.Prefix(kind, id), "output prefix == 0x01 / 0x00 || big-endian id (none for RAW)")

	// the fallback serializer hands out a deep copy
	out, err := (&fallbackProtoKeySerializer{}).SerializeKey(k)
	verifrt.Assert(err == nil, "fallback SerializeKey")
	verifrt.Assert(out != k.protoKeySerialization && out.KeyData() != k.protoKeySerialization.keyData, "a new serialization object and a new KeyData message")
	verifrt.Assert(len(val) == 0 || !verifrt.SameArray(out.KeyData().GetValue(), k.protoKeySerialization.keyData.GetValue()), "the key bytes handed out do not alias the key's own bytes")
	verifrt.AssertEq(out.KeyData().GetValue(), val, "same key bytes")
	gid, greq := out.IDRequirement()
	verifrt.Assert(out.OutputPrefixType() == pt && gid == id && greq == req && out.KeyData().GetKeyMaterialType() == mt && out.KeyData().GetTypeUrl() == kd.GetTypeUrl(), "same metadata")
	// a caller scribbling over what it was handed does not change the key
	for i := range out.KeyData().Value {
		out.KeyData().Value[i] ^= 0xff
	}
	again, _ := (&fallbackProtoKeySerializer{}).SerializeKey(k)
	verifrt.AssertEq(again.KeyData().GetValue(), val, "the key is unaffected by writes into an earlier serialization")
	verifrt.Reach("end")
}

// The input side: a fallback key built from a serialization (as ParseKey does for every key of
// a keyset proto whose type has no registered parser - keyset.NewHandleWithNoSecrets,
// insecurecleartextkeyset.Read, ...) does not share memory with the caller's KeyData message:
// mutating the input afterwards - the value bytes in place, or the message's fields - changes
// neither the key nor what it serializes to.
func VerifH_fallback_key_input_isolation() {
	private := verifrt.Choice("private", 2) == 1
	mt := tinkpb.KeyData_REMOTE
	if private {
		mt = tinkpb.KeyData_ASYMMETRIC_PRIVATE
	}
	pt := [...]tinkpb.OutputPrefixType{tinkpb.OutputPrefixType_TINK, tinkpb.OutputPrefixType_RAW}[verifrt.Choice("prefix", 2)]
	id := uint32(0)
	if pt != tinkpb.OutputPrefixType_RAW {
		id = verifrt.Uint32("id")
	}
	val := verifrt.Bytes("value", 1+verifrt.Choice("n", 3))
	orig := append([]byte{}, val...)
	kd := &tinkpb.KeyData{TypeUrl: "type.googleapis.com/custom.Key", Value: val, KeyMaterialType: mt}
	ks, err := NewKeySerialization(kd, pt, id)
	verifrt.Assert(err == nil, "NewKeySerialization")
	// through ParseKey's own dispatch for unregistered type URLs
	var k interface{ Equal(o key.Key) bool }
	var ser func() (*KeySerialization, error)
	if private {
		pk, err := NewFallbackProtoPrivateKey(ks)
		verifrt.Assert(err == nil, "NewFallbackProtoPrivateKey")
		k, ser = pk, func() (*KeySerialization, error) { return (&fallbackProtoPrivateKeySerializer{}).SerializeKey(pk) }
	} else {
		fk, err := NewFallbackProtoKey(ks)
		verifrt.Assert(err == nil, "NewFallbackProtoKey")
		k, ser = fk, func() (*KeySerialization, error) { return (&fallbackProtoKeySerializer{}).SerializeKey(fk) }
	}
	_ = k
	// the caller mutates its input after the call
	delta := verifrt.Byte("delta")
	verifrt.Assume(delta != 0)
	kd.Value[0] ^= delta
	kd.TypeUrl = "type.googleapis.com/other.Key"
	kd.KeyMaterialType = tinkpb.KeyData_SYMMETRIC
	out, err := ser()
	verifrt.Assert(err == nil, "fallback SerializeKey")
	verifrt.AssertEq(out.KeyData().GetValue(), orig, "the key's bytes are unaffected by the caller overwriting its input bytes in place")
	verifrt.Assert(out.KeyData().GetTypeUrl() == "type.googleapis.com/custom.Key" && out.KeyData().GetKeyMaterialType() == mt, "the key's type URL and material type are unaffected by the caller changing its KeyData message")
	verifrt.Reach("end")
}
