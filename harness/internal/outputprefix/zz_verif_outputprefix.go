package outputprefix

import (
	"github.com/tink-crypto/tink-go/v2/internal/verifrt"
	"github.com/tink-crypto/tink-go/v2/internal/verifspec"
)

// Tink(id) == 0x01 || be32(id), Legacy(id) == 0x00 || be32(id) for every id; 5 bytes; every
// call returns fresh memory (no shared backing array between calls or between the two
// functions), so that callers may append to / overwrite what they get.
func VerifH_outputprefix_all_ids() {
	id := verifrt.Uint32("id")
	t, l := Tink(id), Legacy(id)
	verifrt.Assert(len(t) == 5 && len(l) == 5, "non-RAW prefixes are 5 bytes")
	verifrt.AssertEq(t, []byte{1, byte(id >> 24), byte(id >> 16), byte(id >> 8), byte(id)}, "Tink(id) == 0x01 || big-endian id")
	verifrt.AssertEq(l, []byte{0, byte(id >> 24), byte(id >> 16), byte(id >> 8), byte(id)}, "Legacy(id) == 0x00 || big-endian id")
	verifrt.AssertEq(t, verifspec.Prefix(0, id), "Tink(id) == the documented TINK prefix")
	verifrt.AssertEq(l, verifspec.Prefix(2, id), "Legacy(id) == the documented LEGACY / CRUNCHY prefix")
	t2, l2 := Tink(id), Legacy(id)
	verifrt.Assert(!verifrt.SameArray(t, t2) && !verifrt.SameArray(l, l2) && !verifrt.SameArray(t, l), "every call returns fresh memory")
	for i := range t {
		t[i] ^= 0xa5
		l[i] ^= 0x5a
	}
	verifrt.AssertEq(Tink(id), t2, "overwriting a returned prefix does not change later results (TINK)")
	verifrt.AssertEq(Legacy(id), l2, "overwriting a returned prefix does not change later results (LEGACY)")
	// the id is recoverable: different ids give different prefixes
	id2 := verifrt.Uint32("id2")
	verifrt.Assert(verifrt.EqBytes(Tink(id2), t2) == (id2 == id), "Tink is injective in the id")
	verifrt.Assert(verifrt.EqBytes(Legacy(id2), l2) == (id2 == id), "Legacy is injective in the id")
	verifrt.Assert(!verifrt.EqBytes(Tink(id2), l2), "TINK and LEGACY prefixes never coincide")
	verifrt.Observe("tink", t2)
	verifrt.Observe("legacy", l2)
	verifrt.Reach("end")
}
