package aead

import (
	"errors"

	"github.com/tink-crypto/tink-go/v2/internal/verifrt"
	tinkpb "github.com/tink-crypto/tink-go/v2/proto/tink_go_proto"
)

// stubKEK is a stand-in for a remote KMS AEAD: ciphertext = pad x 0xEE || 0x4B || plaintext.
type stubKEK struct{ pad int }

func (s stubKEK) Encrypt(pt, ad []byte) ([]byte, error) {
	out := make([]byte, 0, s.pad+1+len(pt))
	for i := 0; i < s.pad; i++ {
		out = append(out, 0xEE)
	}
	out = append(out, 0x4B)
	return append(out, pt...), nil
}

func (s stubKEK) Decrypt(ct, ad []byte) ([]byte, error) {
	if len(ct) < s.pad+1 || ct[s.pad] != 0x4B {
		return nil, errors.New("stub kek: bad ciphertext")
	}
	for i := 0; i < s.pad; i++ {
		if ct[i] != 0xEE {
			return nil, errors.New("stub kek: bad ciphertext")
		}
	}
	return append([]byte{}, ct[s.pad+1:]...), nil
}

// stubDEK is the data-encryption AEAD the (summarised) registry hands out for a DEK.
type stubDEK struct{ key []byte }

func (d *stubDEK) Encrypt(pt, ad []byte) ([]byte, error) {
	return verifrt.UF("DEKENC", len(pt)+3, d.key, pt, ad), nil
}

func (d *stubDEK) Decrypt(ct, ad []byte) ([]byte, error) {
	if len(ct) < 3 {
		return nil, errors.New("stub dek: short")
	}
	return verifrt.UF("DEKDEC", len(ct)-3, d.key, ct, ad), nil
}

func summariseRegistry() {
	verifrt.Summarize("core/registry.Primitive", func(typeURL string, serializedKey []byte) (any, error) {
		return &stubDEK{key: append([]byte{}, serializedKey...)}, nil
	})
	verifrt.Summarize("core/registry.NewKeyData", func(t *tinkpb.KeyTemplate) (*tinkpb.KeyData, error) {
		return &tinkpb.KeyData{TypeUrl: t.GetTypeUrl(), Value: verifrt.FreshBytes("dek", 4)}, nil
	})
}

// parseEnvelope on arbitrary bytes: accepts iff the 4-byte big-endian length L satisfies
// 1 <= L <= min(4096, n-4); then the parts are exactly the documented slices. No panic.
func VerifH_kms_parse() {
	n := verifrt.Choice("n", 12)
	ct := verifrt.Bytes("ct", n)
	edek, payload, err := parseEnvelope(ct)
	ok := false
	var l uint32
	if n > 4 {
		l = uint32(ct[0])<<24 | uint32(ct[1])<<16 | uint32(ct[2])<<8 | uint32(ct[3])
		ok = l >= 1 && l <= 4096 && int64(l) <= int64(n-4)
	}
	verifrt.Assert((err == nil) == ok, "parseEnvelope accepts exactly 1 <= L <= min(4096, n-4)")
	if err == nil && ok {
		verifrt.AssertEq(edek, ct[4:4+int(l)], "encrypted DEK slice")
		verifrt.AssertEq(payload, ct[4+int(l):], "payload slice")
		verifrt.Reach("accepted")
	} else {
		verifrt.Reach("rejected")
	}
}

// The 4096 limit, on a long buffer whose content is irrelevant (zeros) and whose length
// field is arbitrary.
func VerifH_kms_parse_limit() {
	ct := make([]byte, 4+4098)
	// boundary values of the length field (the general comparison logic is decided
	// symbolically by VerifH_kms_parse on short buffers)
	l := [...]uint32{0, 1, 4095, 4096, 4097, 4098, 4099, 0x7fffffff, 0x80000000, 0xffffffff}[verifrt.Choice("l", 10)]
	hdr := []byte{byte(l >> 24), byte(l >> 16), byte(l >> 8), byte(l)}
	copy(ct, hdr)
	edek, _, err := parseEnvelope(ct)
	verifrt.Assert((err == nil) == (l >= 1 && l <= 4096), "encrypted DEK length limited to 1..4096")
	if err == nil {
		verifrt.Assert(len(edek) == int(l), "encrypted DEK has the announced length")
	}
	verifrt.Reach("end")
}

func VerifH_kms_envelope() {
	verifrt.NativeSkip("the registry is summarised")
	summariseRegistry()
	// encrypted DEK lengths 5, 6, 7 and around the documented maximum: 4095, 4096, 4097
	pad := [...]int{0, 1, 2, 4090, 4091, 4092}[verifrt.Choice("pad", 6)]
	kek := stubKEK{pad: pad}
	a := NewKMSEnvelopeAEAD2(&tinkpb.KeyTemplate{TypeUrl: aesGCMTypeURL}, kek)
	pt := verifrt.Bytes("pt", verifrt.Choice("n", 3))
	ad := verifrt.Bytes("ad", verifrt.Choice("m", 2))
	d0 := verifrt.Draws()
	ct, err := a.Encrypt(pt, ad)
	if pad+5 > 4096 {
		verifrt.Assert(err != nil, "an encrypted DEK longer than 4096 bytes is refused")
		verifrt.Reach("toolong")
		return
	}
	verifrt.Assert(err == nil, "Encrypt succeeds (encrypted DEK of up to 4096 bytes)")
	verifrt.Assert(verifrt.Draws() == d0+1, "a fresh DEK per message")
	dek := verifrt.DrawBytes(d0)
	edek, _ := kek.Encrypt(dek, []byte{})
	inner, _ := (&stubDEK{key: dek}).Encrypt(pt, ad)
	want := []byte{0, 0, byte(len(edek) >> 8), byte(len(edek))}
	want = append(append(want, edek...), inner...)
	verifrt.AssertEq(ct, want, "envelope == be32(|encDEK|) || encDEK || DEK-AEAD(pt, ad)")
	// decrypt: the payload and DEK handed to the DEK AEAD are exactly those of the envelope
	got, err := a.Decrypt(ct, ad)
	verifrt.Assert(err == nil, "Decrypt parses its own envelope")
	wantPT, _ := (&stubDEK{key: dek}).Decrypt(inner, ad)
	verifrt.AssertEq(got, wantPT, "Decrypt hands (DEK, payload, ad) to the DEK AEAD unchanged")
	verifrt.Reach("end")
}

func VerifH_kms_unsupported_dek() {
	a := NewKMSEnvelopeAEAD2(&tinkpb.KeyTemplate{TypeUrl: "type.googleapis.com/google.crypto.tink.HmacKey"}, stubKEK{})
	_, err := a.Encrypt([]byte{1}, nil)
	_, err2 := a.Decrypt([]byte{0, 0, 0, 1, 2, 3}, nil)
	verifrt.Assert(err != nil && err2 != nil, "non-AEAD DEK templates are refused")
	verifrt.Reach("end")
}
