package subtle

// Harnesses for the public aead/subtle wrappers. What is the wrapper's own logic and what is
// inherited from an already verified layer is stated per group:
//
//   AESGCM            thin wrapper around aead/aesgcm (NewParameters/NewKey/NewAEAD, verified by
//                     VerifH_aesgcm_*): pinned here: the fixed IV/tag sizes and NO-PREFIX variant the
//                     wrapper asks for, the key-size rule, which argument goes where.
//   AESCTR            thin wrapper around internal/aead.AESCTR (used by aesctrhmac, verified through
//                     it); pinned here: the size rules for symbolic ivSize, the IVSize field, the
//                     IND-CPA wire format iv || SP 800-38A CTR, "every ciphertext >= iv decrypts".
//   EncryptThenAuthenticate   own code (not used by aead/aesctrhmac any more): fully checked here
//                     against the encrypt-then-MAC reference layout.
//   ChaCha20Poly1305 / XChaCha20Poly1305   own code (nonce placement, length checks) over the ideal
//                     x/crypto AEAD.
//   AESGCMSIV         thin wrapper around internal/aead.AESGCMSIV (verified by VerifH_gcmsiv_*):
//                     pinned here: dst capacity computation, argument order, key-size rule.
//   polyval.go        a textual copy of internal/aead/polyval.go: mul32, framing, and term-level
//                     equality of polyvalDot with the internal copy.

import (
	"crypto/aes"
	"crypto/cipher"
	stdhmac "crypto/hmac"
	"crypto/sha1"
	"crypto/sha256"
	"crypto/sha512"
	"hash"

	"golang.org/x/crypto/chacha20poly1305"
	internalaead "github.com/tink-crypto/tink-go/v2/internal/aead"
	"github.com/tink-crypto/tink-go/v2/internal/verifh"
	"github.com/tink-crypto/tink-go/v2/internal/verifrt"
	"github.com/tink-crypto/tink-go/v2/internal/verifspec"
	macsubtle "github.com/tink-crypto/tink-go/v2/mac/subtle"
)

// ---------------------------------------------------------------------------------------
// shared pieces

// keyLenAll: every key length 0..40 (all AES sizes, their neighbours, nothing, 33..40).
func keyLenAll(name string) int { return verifrt.Choice(name, 41) }

// aesKeyOK is the documented rule of this package: "either 16 or 32 bytes" (AES-192 is not
// offered by Tink).
func aesKeyOK(n int) bool { return n == 16 || n == 32 }

// ---------------------------------------------------------------------------------------
// ValidateAESKeySize, all uint32

func VerifH_subtle_validate_aes_key_size() {
	n := verifrt.Uint32("n")
	err := ValidateAESKeySize(n)
	verifrt.Assert((err == nil) == (n == 16 || n == 32), "ValidateAESKeySize accepts exactly 16 and 32")
	verifrt.Observe("ok", err == nil)
	verifrt.Reach("end")
}

// ---------------------------------------------------------------------------------------
// AESGCM

func gcmSeal(key []byte) verifh.SealFn {
	return func(iv, pt, ad []byte) []byte {
		c, _ := aes.NewCipher(key)
		g, _ := cipher.NewGCM(c) // standard GCM: 12-byte nonce, 16-byte tag
		return g.Seal(append([]byte{}, iv...), iv, pt, ad)
	}
}

func VerifH_subtle_aesgcm_ctor() {
	n := keyLenAll("kl")
	a, err := NewAESGCM(verifrt.Bytes("key", n))
	verifrt.Assert((err == nil) == aesKeyOK(n), "NewAESGCM accepts exactly 16- and 32-byte keys")
	verifrt.Assert((a == nil) == (err != nil), "no primitive together with an error")
	verifrt.Assert(AESGCMIVSize == 12 && AESGCMTagSize == 16, "documented IV and tag size constants")
	verifrt.Observe("ok", err == nil)
	verifrt.Reach("end")
}

func buildGCM() (*AESGCM, []byte) {
	key := verifrt.Bytes("key", verifh.KeySize("ks"))
	a, err := NewAESGCM(key)
	verifrt.Assert(err == nil && a != nil, "NewAESGCM")
	return a, key
}

func VerifH_subtle_aesgcm_aead() {
	a, key := buildGCM()
	verifh.CheckAEAD(a, nil, AESGCMIVSize, gcmSeal(key), 3, 2)
}

func VerifH_subtle_aesgcm_reject() {
	a, _ := buildGCM()
	verifh.CheckAEADReject(a, 16)
}

func VerifH_subtle_aesgcm_arbitrary() {
	a, _ := buildGCM()
	verifh.CheckAEADArbitrary(a, 12+16+2, 16)
}

func VerifH_c19_subtle_aesgcm() {
	a, _ := buildGCM()
	verifh.CheckAEADNoWrite(a)
}

func VerifH_c18_subtle_aesgcm() {
	verifrt.EngineOnly()
	a, _ := buildGCM()
	verifh.CheckAEADShared(a)
}

// ---------------------------------------------------------------------------------------
// AESCTR (IND-CPA cipher)

// Constructor: every key length 0..40 x every int ivSize.
func VerifH_subtle_aesctr_ctor() {
	n := keyLenAll("kl")
	iv := verifrt.Int("iv")
	c, err := NewAESCTR(verifrt.Bytes("key", n), iv)
	verifrt.Assert((err == nil) == (aesKeyOK(n) && iv >= 12 && iv <= 16), "NewAESCTR accepts exactly AES-128/256 keys and IV sizes 12..16")
	verifrt.Assert((c == nil) == (err != nil), "no primitive together with an error")
	if err == nil {
		verifrt.Assert(c.IVSize == iv, "IVSize field reports the requested size")
	}
	verifrt.Assert(AESCTRMinIVSize == 12, "documented minimum IV size")
	verifrt.Observe("ok", err == nil)
	verifrt.Reach("end")
}

func buildCTR(full bool) (*AESCTR, []byte, int) {
	ks := 16
	if full {
		ks = verifh.KeySize("ks")
	}
	key := verifrt.Bytes("aeskey", ks)
	iv := 12 + verifrt.Choice("iv", 5)
	c, err := NewAESCTR(key, iv)
	verifrt.Assert(err == nil && c != nil, "NewAESCTR")
	return c, key, iv
}

// ctrRef: iv || CTR keystream (counter block = iv zero-padded to 16 bytes, big-endian
// increment over the whole block) xor pt.
func ctrRef(key, iv, pt []byte) []byte {
	ctr := make([]byte, 16)
	copy(ctr, iv)
	return append(append([]byte{}, iv...), verifspec.CTRXor(key, ctr, pt)...)
}

func VerifH_subtle_aesctr_encrypt() {
	c, key, iv := buildCTR(true)
	pt := verifrt.Bytes("pt", verifh.Lens("n", 3, 15, 16, 17, 31, 32, 33))
	d0 := verifrt.Draws()
	ct, err := c.Encrypt(pt)
	verifrt.Assert(err == nil, "Encrypt succeeds")
	verifrt.Assert(verifrt.Draws() == d0+1, "Encrypt makes exactly one random draw")
	rnd := verifrt.DrawBytes(d0)
	verifrt.Assert(len(rnd) == iv, "the draw has the full IV length")
	verifrt.AssertEq(ct, ctrRef(key, rnd, pt), "ciphertext == iv || AES-CTR(key, iv || 0.., pt)")
	got, err := c.Decrypt(ct)
	verifrt.Assert(err == nil, "Decrypt of own ciphertext succeeds")
	verifrt.AssertEq(got, pt, "Decrypt(Encrypt(pt)) == pt")
	verifrt.Assert(!verifrt.SameArray(got, ct), "plaintext is fresh memory")
	verifrt.Observe("ct", ct)
	verifrt.Reach("end")
}

// An IND-CPA cipher has no integrity: every string of at least ivSize bytes decrypts, to
// exactly CTR(iv = first ivSize bytes)(rest); shorter strings are refused; never a panic.
func VerifH_subtle_aesctr_decrypt_all() {
	c, key, iv := buildCTR(true)
	n := verifrt.Choice("n", 16+19)
	ct := verifrt.Bytes("ct", n)
	got, err := c.Decrypt(ct)
	verifrt.Assert((err == nil) == (n >= iv), "Decrypt accepts exactly the inputs that hold a whole IV")
	if err != nil {
		verifrt.Assert(got == nil, "no plaintext on error")
		verifrt.Reach("rejected")
		return
	}
	ctr := make([]byte, 16)
	copy(ctr, ct[:iv])
	verifrt.AssertEq(got, verifspec.CTRXor(key, ctr, ct[iv:]), "Decrypt == AES-CTR under the transmitted IV")
	verifrt.Reach("accepted")
}

func VerifH_c19_subtle_aesctr() {
	c, _, _ := buildCTR(false)
	pt := verifh.Buf("pt", verifrt.Choice("n", 3), "caller plaintext buffer")
	ct, err := c.Encrypt(pt)
	verifrt.Assert(err == nil, "Encrypt succeeds")
	verifrt.CheckProtected()
	verifrt.Assert(!verifrt.SameArray(ct, pt), "ciphertext shares no memory with the input")
	spare := verifrt.Choice("ct.spare", 3)
	cbuf := make([]byte, len(ct), len(ct)+spare)
	copy(cbuf, ct)
	verifrt.Protect(cbuf, "caller ciphertext buffer")
	got, err := c.Decrypt(cbuf)
	verifrt.Assert(err == nil, "Decrypt succeeds")
	verifrt.CheckProtected()
	verifrt.Assert(!verifrt.SameArray(got, cbuf), "plaintext shares no memory with the input")
	verifrt.Reach("nowrite-ok")
}

func VerifH_c18_subtle_aesctr() {
	verifrt.EngineOnly()
	c, _, _ := buildCTR(false)
	n := verifrt.Freeze(c, "state shared between concurrent calls (AESCTR)")
	verifrt.Assert(n > 0, "the primitive has state to freeze")
	pt := verifrt.Bytes("pt", verifrt.Choice("n", 3))
	verifrt.FreezeAll("state that existed before the calls")
	c1, e1 := c.Encrypt(pt)
	c2, e2 := c.Encrypt(pt)
	verifrt.Assert(e1 == nil && e2 == nil, "Encrypt succeeds")
	p1, e3 := c.Decrypt(c1)
	p2, e4 := c.Decrypt(c2)
	verifrt.Assert(e3 == nil && e4 == nil, "Decrypt succeeds")
	verifrt.AssertEq(p1, pt, "first result unaffected by the second call")
	verifrt.AssertEq(p2, pt, "second result correct")
	verifrt.Reach("shared-ok")
}

// ---------------------------------------------------------------------------------------
// EncryptThenAuthenticate

// Constructor: every int tag size; the documented minimum is 10 bytes.
func VerifH_subtle_eta_ctor() {
	t := verifrt.Int("tag")
	c, _ := NewAESCTR(make([]byte, 16), 12)
	m, _ := macsubtle.NewHMAC("SHA256", make([]byte, 16), 16)
	e, err := NewEncryptThenAuthenticate(c, m, t)
	verifrt.Assert((err == nil) == (t >= 10), "NewEncryptThenAuthenticate accepts exactly tag sizes >= 10")
	verifrt.Assert((e == nil) == (err != nil), "no primitive together with an error")
	verifrt.Observe("ok", err == nil)
	verifrt.Reach("end")
}

type etaCfg struct {
	aesKey, macKey []byte
	iv, tag        int
	hf             func() hash.Hash
}

func pickHashName(name string, n int) (string, func() hash.Hash, int) {
	switch verifrt.Choice(name, n) {
	case 0:
		return "SHA256", sha256.New, 32
	case 1:
		return "SHA1", sha1.New, 20
	case 2:
		return "SHA224", sha256.New224, 28
	case 3:
		return "SHA384", sha512.New384, 48
	}
	return "SHA512", sha512.New, 64
}

func buildETA(full bool) (*EncryptThenAuthenticate, etaCfg) {
	var c etaCfg
	nh, niv := 5, 5
	if !full {
		nh, niv = 1, 2
	}
	hname, hf, digest := pickHashName("hash", nh)
	c.hf = hf
	if full {
		c.iv = 12 + verifrt.Choice("iv", niv)
	} else {
		c.iv = 12 + 4*verifrt.Choice("iv", niv)
	}
	if verifrt.Choice("tagsel", 2) == 0 {
		c.tag = 10
	} else {
		c.tag = digest
	}
	ks := 16
	if full {
		ks = verifh.KeySize("ks")
	}
	c.aesKey = verifrt.Bytes("aeskey", ks)
	c.macKey = verifrt.Bytes("mackey", 16)
	ctr, err := NewAESCTR(c.aesKey, c.iv)
	verifrt.Assert(err == nil, "NewAESCTR")
	mac, err := macsubtle.NewHMAC(hname, c.macKey, uint32(c.tag))
	verifrt.Assert(err == nil, "NewHMAC")
	e, err := NewEncryptThenAuthenticate(ctr, mac, c.tag)
	verifrt.Assert(err == nil && e != nil, "NewEncryptThenAuthenticate")
	return e, c
}

// Encrypt-then-MAC as documented: iv || CTR(pt) || HMAC(ad || iv || ct || be64(8*|ad|))[:t]
func etaSeal(c etaCfg) verifh.SealFn {
	return func(iv, pt, ad []byte) []byte {
		body := ctrRef(c.aesKey, iv, pt)
		h := stdhmac.New(c.hf, c.macKey)
		h.Write(ad)
		h.Write(body)
		bits := uint64(len(ad)) * 8
		h.Write([]byte{byte(bits >> 56), byte(bits >> 48), byte(bits >> 40), byte(bits >> 32), byte(bits >> 24), byte(bits >> 16), byte(bits >> 8), byte(bits)})
		return append(body, h.Sum(nil)[:c.tag]...)
	}
}

func VerifH_subtle_eta_aead() {
	e, c := buildETA(true)
	maxPT := 3
	if verifrt.Thorough() {
		maxPT = 18
	}
	verifh.CheckAEAD(e, nil, c.iv, etaSeal(c), maxPT, 2)
}

func VerifH_subtle_eta_reject() {
	e, c := buildETA(false)
	verifh.CheckAEADReject(e, c.tag)
}

func VerifH_subtle_eta_arbitrary() {
	e, c := buildETA(false)
	verifh.CheckAEADArbitrary(e, c.iv+c.tag+2, c.tag)
}

// A tag size that is not the MAC's real tag length never yields a ciphertext (Encrypt would
// otherwise cut the tag at the wrong offset on Decrypt).
func VerifH_subtle_eta_tagmismatch() {
	macTag := 10 + verifrt.Choice("mactag", 23) // 10..32
	t := 10 + verifrt.Choice("tag", 25)         // 10..34
	ctr, err := NewAESCTR(verifrt.Bytes("aeskey", 16), 12)
	verifrt.Assert(err == nil, "NewAESCTR")
	mac, err := macsubtle.NewHMAC("SHA256", verifrt.Bytes("mackey", 16), uint32(macTag))
	verifrt.Assert(err == nil, "NewHMAC")
	e, err := NewEncryptThenAuthenticate(ctr, mac, t)
	verifrt.Assert(err == nil, "NewEncryptThenAuthenticate")
	ct, err := e.Encrypt(verifrt.Bytes("pt", 1), verifrt.Bytes("ad", 1))
	verifrt.Assert((err == nil) == (t == macTag), "Encrypt succeeds exactly when the declared tag size is the MAC's tag length")
	if err != nil {
		verifrt.Assert(ct == nil, "no ciphertext on error")
	}
	verifrt.Reach("end")
}

func VerifH_c19_subtle_eta() {
	e, _ := buildETA(false)
	verifh.CheckAEADNoWrite(e)
}

func VerifH_c18_subtle_eta() {
	verifrt.EngineOnly()
	e, _ := buildETA(false)
	verifh.CheckAEADShared(e)
}

// ---------------------------------------------------------------------------------------
// ChaCha20-Poly1305 and XChaCha20-Poly1305

func VerifH_subtle_chacha_ctor() {
	n := keyLenAll("kl")
	key := verifrt.Bytes("key", n)
	a, err := NewChaCha20Poly1305(key)
	verifrt.Assert((err == nil) == (n == 32), "NewChaCha20Poly1305 accepts exactly 32-byte keys")
	verifrt.Assert((a == nil) == (err != nil), "no primitive together with an error")
	x, err := NewXChaCha20Poly1305(key)
	verifrt.Assert((err == nil) == (n == 32), "NewXChaCha20Poly1305 accepts exactly 32-byte keys")
	verifrt.Assert((x == nil) == (err != nil), "no primitive together with an error")
	verifrt.Observe("ok", err == nil)
	verifrt.Reach("end")
}

func buildChaCha() (*ChaCha20Poly1305, []byte) {
	key := verifrt.Bytes("key", 32)
	a, err := NewChaCha20Poly1305(key)
	verifrt.Assert(err == nil && a != nil, "NewChaCha20Poly1305")
	return a, key
}

func buildXChaCha() (*XChaCha20Poly1305, []byte) {
	key := verifrt.Bytes("key", 32)
	a, err := NewXChaCha20Poly1305(key)
	verifrt.Assert(err == nil && a != nil, "NewXChaCha20Poly1305")
	return a, key
}

func chachaSeal(key []byte, x bool) verifh.SealFn {
	return func(nonce, pt, ad []byte) []byte {
		var c cipher.AEAD
		if x {
			c, _ = chacha20poly1305.NewX(key)
		} else {
			c, _ = chacha20poly1305.New(key)
		}
		return c.Seal(append([]byte{}, nonce...), nonce, pt, ad)
	}
}

func VerifH_subtle_chacha_aead() {
	a, key := buildChaCha()
	verifh.CheckAEAD(a, nil, 12, chachaSeal(key, false), 3, 2)
}

func VerifH_subtle_chacha_reject() {
	a, _ := buildChaCha()
	verifh.CheckAEADReject(a, 16)
}

func VerifH_subtle_chacha_arbitrary() {
	a, _ := buildChaCha()
	verifh.CheckAEADArbitrary(a, 12+16+2, 16)
}

func VerifH_c19_subtle_chacha() {
	a, _ := buildChaCha()
	verifh.CheckAEADNoWrite(a)
}

func VerifH_c18_subtle_chacha() {
	verifrt.EngineOnly()
	a, _ := buildChaCha()
	verifh.CheckAEADShared(a)
}

func VerifH_subtle_xchacha_aead() {
	a, key := buildXChaCha()
	verifh.CheckAEAD(a, nil, 24, chachaSeal(key, true), 3, 2)
}

func VerifH_subtle_xchacha_reject() {
	a, _ := buildXChaCha()
	verifh.CheckAEADReject(a, 16)
}

func VerifH_subtle_xchacha_arbitrary() {
	a, _ := buildXChaCha()
	verifh.CheckAEADArbitrary(a, 24+16+2, 16)
}

func VerifH_c19_subtle_xchacha() {
	a, _ := buildXChaCha()
	verifh.CheckAEADNoWrite(a)
}

func VerifH_c18_subtle_xchacha() {
	verifrt.EngineOnly()
	a, _ := buildXChaCha()
	verifh.CheckAEADShared(a)
}

// ---------------------------------------------------------------------------------------
// AESGCMSIV

func VerifH_subtle_aesgcmsiv_ctor() {
	n := keyLenAll("kl")
	a, err := NewAESGCMSIV(verifrt.Bytes("key", n))
	verifrt.Assert((err == nil) == aesKeyOK(n), "NewAESGCMSIV accepts exactly 16- and 32-byte keys")
	verifrt.Assert((a == nil) == (err != nil), "no primitive together with an error")
	verifrt.Observe("ok", err == nil)
	verifrt.Reach("end")
}

func buildSIV() (*AESGCMSIV, []byte) {
	internalaead.VerifDotSummary()
	key := verifrt.Bytes("key", verifh.KeySize("ks"))
	a, err := NewAESGCMSIV(key)
	verifrt.Assert(err == nil && a != nil, "NewAESGCMSIV")
	return a, key
}

func VerifH_subtle_aesgcmsiv_aead() {
	a, key := buildSIV()
	verifh.CheckAEAD(a, nil, 12, func(nonce, pt, ad []byte) []byte {
		return internalaead.VerifSpecGCMSIVSeal(key, nonce, pt, ad)
	}, 3, 2)
}

// Every (nonce, ciphertext, tag) with |ciphertext| = n is nonce || CTR(tag, P) || tag for exactly
// one P; the wrapper's Decrypt must accept iff tag == Tag(nonce, ad, P) (candidate tag =
// genuine tag xor delta: all 16-byte strings; the pre-image construction is the one of
// VerifH_gcmsiv_decrypt_all, here driven through the public wrapper). Truncations of a
// genuine ciphertext below nonce + tag and arbitrary short inputs are refused.
func VerifH_subtle_aesgcmsiv_reject() {
	a, key := buildSIV()
	ad := verifrt.Bytes("ad", verifrt.Choice("m", 2))
	switch verifrt.Choice("mode", 3) {
	case 0:
		p := verifrt.Bytes("p", verifh.Lens("n", 3, 16, 17))
		nonce := verifrt.Bytes("nonce", 12)
		delta := verifrt.Bytes("delta", 16)
		ct := internalaead.VerifSpecGCMSIVForge(key, nonce, p, ad, delta)
		got, err := a.Decrypt(ct, ad)
		verifrt.Assert((err == nil) == verifrt.EqBytes(delta, make([]byte, 16)), "Decrypt accepts exactly tag == Tag(nonce, ad, P)")
		if err == nil {
			verifrt.AssertEq(got, p, "Decrypt returns P")
		} else {
			verifrt.Assert(got == nil, "no plaintext on error")
		}
	case 1:
		pt := verifrt.Bytes("pt", verifrt.Choice("n", 3))
		ct0, err := a.Encrypt(pt, ad)
		verifrt.Assert(err == nil, "Encrypt succeeds")
		verifrt.Assert(len(ct0) == 12+len(pt)+16, "ciphertext length == nonce + plaintext + tag")
		l := verifrt.Choice("cut", 12+16)
		got, err := a.Decrypt(append([]byte{}, ct0[:l]...), ad)
		verifrt.Assert(err != nil && got == nil, "input shorter than nonce + tag rejected, no plaintext")
	default:
		got, err := a.Decrypt(verifrt.Bytes("short", verifrt.Choice("sn", 28)), ad)
		verifrt.Assert(err != nil && got == nil, "arbitrary input shorter than nonce + tag rejected")
	}
	verifrt.Reach("end")
}

func VerifH_subtle_aesgcmsiv_arbitrary() {
	a, _ := buildSIV()
	verifh.CheckAEADArbitrary(a, 12+16+2, 16)
}

func VerifH_c19_subtle_aesgcmsiv() {
	a, _ := buildSIV()
	verifh.CheckAEADNoWrite(a)
}

func VerifH_c18_subtle_aesgcmsiv() {
	verifrt.EngineOnly()
	a, _ := buildSIV()
	verifh.CheckAEADShared(a)
}
