package subtle

// aead/subtle/polyval.go is a textual copy of internal/aead/polyval.go (the copy that
// AES-GCM-SIV really uses). Decided here for the public copy:
//   - mul32 == the carry-less 32x32 product (all inputs, per-bit split, as for the internal copy);
//   - mul64 and polyvalDot are, term for term, the functions of the internal copy (all 64/128-bit
//     inputs): whatever is established for one holds for the other;
//   - NewPolyval accepts exactly 16-byte keys and reads them little endian; Update processes
//     the zero-padded blocks of every call as S_j = dot(S_{j-1} + X_j, H) (RFC 8452 section 3), an
//     Update with nothing changes nothing, Finish is the little-endian accumulator
//     (polyvalDot replaced by an uninterpreted function for the framing).

import (
	internalaead "github.com/tink-crypto/tink-go/v2/internal/aead"
	"github.com/tink-crypto/tink-go/v2/internal/verifrt"
)

func vle64(b []byte) uint64 {
	var v uint64
	for i := 7; i >= 0; i-- {
		v = v<<8 | uint64(b[i])
	}
	return v
}

func vputLE64(b []byte, v uint64) {
	for i := 0; i < 8; i++ {
		b[i] = byte(v >> (8 * uint(i)))
	}
}

func vclmul32(a, b uint32) uint64 {
	var r uint64
	for i := 0; i < 32; i++ {
		m := uint64(0)
		if (b>>uint(i))&1 == 1 {
			m = ^uint64(0)
		}
		r ^= (uint64(a) << uint(i)) & m
	}
	return r
}

func VerifH_subtle_polyval_mul32() {
	a := verifrt.Uint32("a")
	b := verifrt.Uint32("b")
	verifrt.Tag("xor")
	verifrt.AssertBits(mul32(a, b), vclmul32(a, b), "mul32 == carry-less product")
	verifrt.Reach("end")
}

func VerifH_subtle_polyval_same_as_internal() {
	a := fieldElement{lo: verifrt.Uint64("alo"), hi: verifrt.Uint64("ahi")}
	b := fieldElement{lo: verifrt.Uint64("blo"), hi: verifrt.Uint64("bhi")}
	m := mul64(a.lo, b.lo)
	mlo, mhi := internalaead.VerifMul64(a.lo, b.lo)
	verifrt.AssertBits(m.lo, mlo, "mul64 (low word) == internal/aead mul64")
	verifrt.AssertBits(m.hi, mhi, "mul64 (high word) == internal/aead mul64")
	r := polyvalDot(a, b)
	rlo, rhi := internalaead.VerifPolyvalDot(a.lo, a.hi, b.lo, b.hi)
	verifrt.AssertBits(r.lo, rlo, "polyvalDot (low word) == internal/aead polyvalDot")
	verifrt.AssertBits(r.hi, rhi, "polyvalDot (high word) == internal/aead polyvalDot")
	verifrt.Observe("dot", r.lo, r.hi)
	verifrt.Reach("end")
}

func dotSummary() {
	verifrt.Summarize("aead/subtle.polyvalDot", vdot)
}

// vdot: natively the real function (Summarize is a no-op there), under the engine uninterpreted.
func vdot(a, b fieldElement) fieldElement {
	if !verifrt.Symbolic() {
		return polyvalDot(a, b)
	}
	var ab, bb [16]byte
	vputLE64(ab[:8], a.lo)
	vputLE64(ab[8:], a.hi)
	vputLE64(bb[:8], b.lo)
	vputLE64(bb[8:], b.hi)
	r := verifrt.UF("SUBTLEPOLYVALDOT", 16, ab[:], bb[:])
	return fieldElement{lo: vle64(r[:8]), hi: vle64(r[8:])}
}

func vpad16(b []byte) []byte {
	out := append([]byte{}, b...)
	for len(out)%16 != 0 {
		out = append(out, 0)
	}
	return out
}

// RFC 8452 section 3: S_0 = 0, S_j = dot(S_{j-1} + X_j, H); result = S_s, little endian.
func vspecPolyval(h []byte, blocks []byte) [16]byte {
	hk := fieldElement{lo: vle64(h[:8]), hi: vle64(h[8:])}
	var s fieldElement
	for i := 0; i+16 <= len(blocks); i += 16 {
		s.lo ^= vle64(blocks[i : i+8])
		s.hi ^= vle64(blocks[i+8 : i+16])
		s = vdot(s, hk)
	}
	var out [16]byte
	vputLE64(out[:8], s.lo)
	vputLE64(out[8:], s.hi)
	return out
}

func VerifH_subtle_polyval_new() {
	n := verifrt.Choice("kl", 41)
	key := verifrt.Bytes("key", n)
	p, err := NewPolyval(key)
	verifrt.Assert((err == nil) == (n == 16), "NewPolyval accepts exactly 16-byte keys")
	verifrt.Assert((p == nil) == (err != nil), "no object together with an error")
	verifrt.Assert(PolyvalBlockSize == 16, "block size constant")
	if err == nil {
		z := p.Finish()
		verifrt.AssertEq(z[:], make([]byte, 16), "a fresh POLYVAL is S_0 = 0")
	}
	verifrt.Reach("end")
}

func VerifH_subtle_polyval_framing() {
	dotSummary()
	key := verifrt.Bytes("h", 16)
	max := 34
	if verifrt.Thorough() {
		max = 50
	}
	n1 := verifrt.Choice("n1", max)
	n2 := verifrt.Choice("n2", 18)
	d1 := verifrt.Bytes("d1", n1)
	d2 := verifrt.Bytes("d2", n2)
	p, err := NewPolyval(key)
	verifrt.Assert(err == nil, "NewPolyval")
	p.Update(d1)
	p.Update(d2)
	got := p.Finish()
	want := vspecPolyval(key, append(vpad16(d1), vpad16(d2)...))
	verifrt.AssertEq(got[:], want[:], "Update/Finish == POLYVAL(H, pad(d1) || pad(d2)), S_j = dot(S_{j-1}+X_j, H), little endian")
	again := p.Finish()
	verifrt.AssertEq(again[:], got[:], "Finish does not change the state")
	verifrt.Observe("polyval", got[:])
	verifrt.Reach("end")
}
