package aesgcmsiv

import (
	"github.com/tink-crypto/tink-go/v2/internal/verifh"
	"github.com/tink-crypto/tink-go/v2/internal/verifrt"
	"github.com/tink-crypto/tink-go/v2/key"
	"github.com/tink-crypto/tink-go/v2/secretdata"
)

// C19, key object: see verifh.CheckSymKeyObject.
func VerifH_c19_aesgcmsivkey() {
	kind := verifrt.Choice("variant", 3)
	v := [...]Variant{VariantTink, VariantCrunchy, VariantNoPrefix}[kind]
	ks := [...]int{16, 32}[verifrt.Choice("ks", 2)]
	id := verifrt.Uint32("id")
	if kind == 2 {
		id = 0
	}
	params, err := NewParameters(ks, v)
	verifrt.Assert(err == nil, "NewParameters")
	verifh.CheckSymKeyObject(ks, func(b secretdata.Bytes) (key.Key, error) { return NewKey(b, id, params) }, nwKeyBytes, nwPrefix, [...]int{5, 5, 0}[kind])
}

func nwKeyBytes(k key.Key) secretdata.Bytes { return k.(*Key).KeyBytes() }
func nwPrefix(k key.Key) []byte             { return k.(*Key).OutputPrefix() }
