package aesgcmsiv

import (
	tinkpb "github.com/tink-crypto/tink-go/v2/proto/tink_go_proto"
	"github.com/tink-crypto/tink-go/v2/insecuresecretdataaccess"
	internalaead "github.com/tink-crypto/tink-go/v2/internal/aead"
	"github.com/tink-crypto/tink-go/v2/internal/verifh"
	"github.com/tink-crypto/tink-go/v2/internal/verifrt"
	"github.com/tink-crypto/tink-go/v2/internal/verifspec"
	"github.com/tink-crypto/tink-go/v2/secretdata"
)

func build() (a verifh.AEAD, keyBytes []byte, prefix []byte) {
	kind := verifrt.Choice("variant", 3)
	v := [...]Variant{VariantTink, VariantCrunchy, VariantNoPrefix}[kind]
	ks := verifh.KeySize("ks")
	keyBytes = verifrt.Bytes("key", ks)
	id := verifrt.Uint32("id")
	pk := kind
	if kind == 2 {
		id = 0
		pk = 3
	}
	params, err := NewParameters(ks, v)
	verifrt.Assert(err == nil, "NewParameters")
	k, err := NewKey(secretdata.NewBytesFromData(keyBytes, insecuresecretdataaccess.Token{}), id, params)
	verifrt.Assert(err == nil, "NewKey")
	p, err := newAEAD(k)
	verifrt.Assert(err == nil, "newAEAD")
	return p, keyBytes, verifspec.Prefix(pk, id)
}

func VerifH_aesgcmsiv_aead() {
	internalaead.VerifDotSummary()
	a, key, prefix := build()
	verifh.CheckAEAD(a, prefix, 12, func(nonce, pt, ad []byte) []byte {
		return internalaead.VerifSpecGCMSIVSeal(key, nonce, pt, ad)
	}, 3, 2)
}

// Prefix layer on arbitrary input: never a panic (incl. inputs shorter than the prefix);
// a wrong or missing prefix is rejected.
func VerifH_aesgcmsiv_prefix() {
	internalaead.VerifDotSummary()
	a, _, prefix := build()
	pt := verifrt.Bytes("pt", verifrt.Choice("n", 2))
	ct0, err := a.Encrypt(pt, nil)
	verifrt.Assert(err == nil, "Encrypt succeeds")
	if verifrt.Choice("mode", 2) == 0 {
		// same length, prefix bytes xor delta
		delta := verifrt.Bytes("delta", len(prefix))
		ct := append([]byte{}, ct0...)
		for i := range prefix {
			ct[i] ^= delta[i]
		}
		_, err := a.Decrypt(ct, nil)
		verifrt.Assert((err == nil) == verifrt.EqBytes(delta, make([]byte, len(prefix))), "exact prefix comparison")
	} else {
		l := verifrt.Choice("cut", len(prefix)+12+16)
		got, err := a.Decrypt(append([]byte{}, ct0[:l]...), nil)
		verifrt.Assert(err != nil && got == nil, "truncated ciphertext rejected")
	}
	verifrt.Reach("end")
}

func VerifH_c19_aesgcmsiv() {
	internalaead.VerifDotSummary()
	a, _, _ := build()
	verifh.CheckAEADNoWrite(a)
}

func VerifH_serial_aesgcmsiv() {
	kind := verifrt.Choice("variant", 3)
	v := [...]Variant{VariantTink, VariantCrunchy, VariantNoPrefix}[kind]
	pk := kind
	ks := [...]int{16, 32}[verifrt.Choice("ks", 2)]
	id := verifrt.Uint32("id")
	if kind == 2 {
		id, pk = 0, 3
	}
	params, err := NewParameters(ks, v)
	verifrt.Assert(err == nil, "NewParameters")
	k, err := NewKey(secretdata.NewBytesFromData(verifrt.Bytes("key", ks), insecuresecretdataaccess.Token{}), id, params)
	verifrt.Assert(err == nil, "NewKey")
	verifh.CheckKeyRoundTrip(k, &keySerializer{}, &keyParser{}, &parametersSerializer{}, &parametersParser{}, pk, id, typeURL, tinkpb.KeyData_SYMMETRIC)
}

func VerifH_c18_aesgcmsiv() {
	verifrt.EngineOnly()
	internalaead.VerifDotSummary()
	a, _, _ := build()
	verifh.CheckAEADShared(a)
}
