package aesctrhmac

import (
	"google.golang.org/protobuf/proto"

	"github.com/tink-crypto/tink-go/v2/insecuresecretdataaccess"
	"github.com/tink-crypto/tink-go/v2/internal/verifh"
	"github.com/tink-crypto/tink-go/v2/internal/verifrt"
	ctrpb "github.com/tink-crypto/tink-go/v2/proto/aes_ctr_go_proto"
	pb "github.com/tink-crypto/tink-go/v2/proto/aes_ctr_hmac_aead_go_proto"
	commonpb "github.com/tink-crypto/tink-go/v2/proto/common_go_proto"
	hmacpb "github.com/tink-crypto/tink-go/v2/proto/hmac_go_proto"
	tinkpb "github.com/tink-crypto/tink-go/v2/proto/tink_go_proto"
)

func parseHashOf(hash int32) HashType {
	switch hash {
	case 1:
		return SHA1
	case 2:
		return SHA384
	case 3:
		return SHA256
	case 4:
		return SHA512
	case 5:
		return SHA224
	}
	return UnknownHashType
}

// VerifH_parse_aesctrhmac: keyParser.ParseKey on hostile field values.
//
// Documented validity of an AES-CTR-HMAC key (AesCtrHmacAeadKey{version, aes_ctr_key{version,
// params{iv_size}, key_value}, hmac_key{version, params{hash, tag_size}, key_value}}):
// all three versions 0; AES key 16, 24 or 32 bytes; IV size in [12, 16]; HMAC key >= 16
// bytes; hash one of SHA1/SHA224/SHA256/SHA384/SHA512; tag size in [10, digest length];
// SYMMETRIC; own type URL; prefix TINK/CRUNCHY/LEGACY/RAW; RAW => id 0. Absent
// sub-messages read as all-zero fields and are therefore invalid.
func VerifH_parse_aesctrhmac() {
	h := verifh.NewHostile()
	version, aesVersion, macVersion := verifrt.Uint32("version"), verifrt.Uint32("aesversion"), verifrt.Uint32("macversion")
	iv, tag, hash := verifrt.Uint32("iv"), verifrt.Uint32("tag"), verifrt.Int32("hash")
	shape := h.Shape("shape", 6)
	an, mn := 32, 32
	if shape == 0 && h.URLOK {
		if verifrt.Thorough() {
			an = h.Len("aeslen", 32, 0, 1, 15, 16, 17, 24, 31, 33, 63, 64, 65)
			mn = h.Len("maclen", 32, 0, 1, 15, 16, 17, 20, 64, 65)
		} else if verifrt.Choice("focus", 2) == 0 {
			an = h.Len("aeslen", 32, 0, 1, 15, 16, 17, 24, 31, 33, 63, 64, 65)
			mn = h.Len("maclen0", 16, 32)
		} else {
			an = h.Len("aeslen1", 16, 32)
			mn = h.Len("maclen", 0, 1, 15, 16, 17, 20, 64, 65)
		}
	}
	aesKey, macKey := verifrt.Bytes("aeskey", an), verifrt.Bytes("mackey", mn)
	msg := &pb.AesCtrHmacAeadKey{
		Version:   version,
		AesCtrKey: &ctrpb.AesCtrKey{Version: aesVersion, Params: &ctrpb.AesCtrParams{IvSize: iv}, KeyValue: aesKey},
		HmacKey:   &hmacpb.HmacKey{Version: macVersion, Params: &hmacpb.HmacParams{Hash: commonpb.HashType(hash), TagSize: tag}, KeyValue: macKey},
	}
	switch shape {
	case 1:
		msg.AesCtrKey, aesVersion, iv, an, aesKey = nil, 0, 0, 0, nil
	case 2:
		msg.HmacKey, macVersion, hash, tag, mn, macKey = nil, 0, 0, 0, 0, nil
	case 3:
		msg.AesCtrKey.Params, iv = nil, 0
	case 4:
		msg.HmacKey.Params, hash, tag = nil, 0, 0
	}
	var value []byte
	if shape == 5 {
		version, aesVersion, macVersion, iv, tag, hash, an, mn, aesKey, macKey = 0, 0, 0, 0, 0, 0, 0, 0, nil, nil
	} else {
		var err error
		value, err = proto.Marshal(msg)
		verifrt.Assert(err == nil, "marshal")
	}
	if !h.Wrap(typeURL, value) {
		return
	}
	k, err := (&keyParser{}).ParseKey(h.KS)
	dl := verifh.DigestLen(hash)
	valid := verifrt.And(h.EnvelopeValid(tinkpb.KeyData_SYMMETRIC, true), verifrt.And(version == 0 && aesVersion == 0 && macVersion == 0, an == 16 || an == 24 || an == 32))
	valid = verifrt.And(valid, verifrt.And(iv >= 12 && iv <= 16, mn >= 16))
	valid = verifrt.And(valid, verifrt.And(dl != 0, tag >= 10 && uint64(tag) <= uint64(dl)))
	verifrt.Assert(verifrt.Implies(err == nil, valid), "accepted => versions 0, AES key 16/24/32, IV in [12,16], HMAC key >= 16, known hash, tag in [10, digest], SYMMETRIC, own type URL, known prefix type, RAW => id 0")
	verifrt.Assert(verifrt.Implies(valid, err == nil), "every valid AES-CTR-HMAC key is accepted")
	if err != nil {
		verifrt.Reach("rejected")
		return
	}
	h.CheckParsedEnvelope(k)
	ak, ok := k.(*Key)
	verifrt.Assert(ok && ak != nil, "parsed key is *aesctrhmac.Key")
	p := ak.Parameters().(*Parameters)
	verifrt.Assert(p.AESKeySizeInBytes() == an && p.HMACKeySizeInBytes() == mn, "parameters: key sizes = len(key_value)")
	verifrt.Assert(p.IVSizeInBytes() == int(iv) && p.TagSizeInBytes() == int(tag) && p.HashType() == parseHashOf(hash), "parameters: IV size, tag size, hash = the message's")
	verifrt.Assert(p.Variant() == [...]Variant{VariantTink, VariantCrunchy, VariantCrunchy, VariantNoPrefix}[h.Kind()], "variant mirrors the prefix type")
	verifrt.AssertEq(ak.AESKeyBytes().Data(insecuresecretdataaccess.Token{}), aesKey, "AES key bytes are aes_ctr_key.key_value")
	verifrt.AssertEq(ak.HMACKeyBytes().Data(insecuresecretdataaccess.Token{}), macKey, "HMAC key bytes are hmac_key.key_value")
	verifrt.AssertEq(ak.OutputPrefix(), h.WantPrefix(), "output prefix of (prefix type, id)")
	verifrt.Reach("accepted")
}

// VerifH_parse_aesctrhmac_params: parametersParser.Parse on a hostile key template
// (AesCtrHmacAeadKeyFormat{aes_ctr_key_format{params{iv_size}, key_size},
// hmac_key_format{params{hash, tag_size}, key_size, version}}).
func VerifH_parse_aesctrhmac_params() {
	macVersion := verifrt.Uint32("macversion")
	iv, tag, hash := verifrt.Uint32("iv"), verifrt.Uint32("tag"), verifrt.Int32("hash")
	an, mn := verifrt.Uint32("aessize"), verifrt.Uint32("macsize")
	msg := &pb.AesCtrHmacAeadKeyFormat{
		AesCtrKeyFormat: &ctrpb.AesCtrKeyFormat{Params: &ctrpb.AesCtrParams{IvSize: iv}, KeySize: an},
		HmacKeyFormat:   &hmacpb.HmacKeyFormat{Version: macVersion, Params: &hmacpb.HmacParams{Hash: commonpb.HashType(hash), TagSize: tag}, KeySize: mn},
	}
	switch verifrt.Choice("shape", 5) {
	case 1:
		msg.AesCtrKeyFormat, iv, an = nil, 0, 0
	case 2:
		msg.HmacKeyFormat, macVersion, hash, tag, mn = nil, 0, 0, 0, 0
	case 3:
		msg.AesCtrKeyFormat.Params, iv = nil, 0
	case 4:
		msg.HmacKeyFormat.Params, hash, tag = nil, 0, 0
	}
	value, err := proto.Marshal(msg)
	verifrt.Assert(err == nil, "marshal")
	t, urlOK, prefix := verifh.HostileTemplate(typeURL, value)
	p, err := (&parametersParser{}).Parse(t)
	kind := verifh.KindOf(prefix)
	dl := verifh.DigestLen(hash)
	valid := verifrt.And(urlOK && kind >= 0, verifrt.And(macVersion == 0, an == 16 || an == 24 || an == 32))
	valid = verifrt.And(valid, verifrt.And(iv >= 12 && iv <= 16, mn >= 16))
	valid = verifrt.And(valid, verifrt.And(dl != 0, tag >= 10 && uint64(tag) <= uint64(dl)))
	verifrt.Assert((err == nil) == valid, "template accepted <=> own type URL, version 0, AES key 16/24/32, IV in [12,16], HMAC key >= 16, known hash, tag in [10, digest], known prefix type")
	if err != nil {
		verifrt.Reach("rejected")
		return
	}
	ap := p.(*Parameters)
	verifrt.Assert(ap.AESKeySizeInBytes() == int(an) && ap.HMACKeySizeInBytes() == int(mn) && ap.IVSizeInBytes() == int(iv) && ap.TagSizeInBytes() == int(tag) && ap.HashType() == parseHashOf(hash), "parameters mirror the format")
	verifrt.Assert(ap.Variant() == [...]Variant{VariantTink, VariantCrunchy, VariantCrunchy, VariantNoPrefix}[kind], "variant mirrors the prefix type")
	verifrt.Assert(ap.HasIDRequirement() == (kind != 3), "id requirement iff not RAW")
	_, nerr := (&parametersParser{}).Parse(nil)
	verifrt.Assert(nerr != nil, "nil template rejected, no panic")
	verifrt.Reach("accepted")
}
