package aesctrhmac

import (
	tinkpb "github.com/tink-crypto/tink-go/v2/proto/tink_go_proto"
	stdhmac "crypto/hmac"
	"crypto/sha1"
	"crypto/sha256"
	"crypto/sha512"
	"hash"

	"github.com/tink-crypto/tink-go/v2/insecuresecretdataaccess"
	"github.com/tink-crypto/tink-go/v2/internal/verifh"
	"github.com/tink-crypto/tink-go/v2/internal/verifrt"
	"github.com/tink-crypto/tink-go/v2/internal/verifspec"
	"github.com/tink-crypto/tink-go/v2/secretdata"
)

type cfg struct {
	aesKey, macKey []byte
	iv, tag        int
	hf             func() hash.Hash
	prefix         []byte
}

func build(full bool) (verifh.AEAD, cfg) {
	var c cfg
	kind := verifrt.Choice("variant", 3)
	v := [...]Variant{VariantTink, VariantCrunchy, VariantNoPrefix}[kind]
	var ht HashType
	digest := 0
	nh, niv := 5, 5
	if !full {
		nh, niv = 1, 2
	}
	switch verifrt.Choice("hash", nh) {
	case 0:
		ht, c.hf, digest = SHA1, sha1.New, 20
	case 1:
		ht, c.hf, digest = SHA224, sha256.New224, 28
	case 2:
		ht, c.hf, digest = SHA256, sha256.New, 32
	case 3:
		ht, c.hf, digest = SHA384, sha512.New384, 48
	default:
		ht, c.hf, digest = SHA512, sha512.New, 64
	}
	c.iv = 12 + 4*verifrt.Choice("iv", niv)
	if full {
		c.iv = 12 + (c.iv-12)/4
	}
	if verifrt.Choice("tagsel", 2) == 0 {
		c.tag = 10
	} else {
		c.tag = digest
	}
	ks := 16
	if full {
		ks = verifh.KeySize("ks")
	}
	c.aesKey = verifrt.Bytes("aeskey", ks)
	c.macKey = verifrt.Bytes("mackey", 16)
	id := verifrt.Uint32("id")
	pk := kind
	if kind == 2 {
		id = 0
		pk = 3
	}
	params, err := NewParameters(ParametersOpts{AESKeySizeInBytes: ks, HMACKeySizeInBytes: 16, IVSizeInBytes: c.iv, TagSizeInBytes: c.tag, HashType: ht, Variant: v})
	verifrt.Assert(err == nil, "NewParameters accepts iv 12..16, tag 10..digest")
	k, err := NewKey(KeyOpts{
		AESKeyBytes:   secretdata.NewBytesFromData(c.aesKey, insecuresecretdataaccess.Token{}),
		HMACKeyBytes:  secretdata.NewBytesFromData(c.macKey, insecuresecretdataaccess.Token{}),
		IDRequirement: id, Parameters: params})
	verifrt.Assert(err == nil, "NewKey")
	p, err := newAEAD(k)
	verifrt.Assert(err == nil, "newAEAD")
	c.prefix = verifspec.Prefix(pk, id)
	return p, c
}

// Encrypt-then-MAC as documented: iv || CTR_E(k, iv || 0..)(pt) || HMAC(ad || iv || ct || be64(8*|ad|))[:t]
func seal(c cfg) verifh.SealFn {
	return func(iv, pt, ad []byte) []byte {
		ctr := make([]byte, 16)
		copy(ctr, iv)
		body := append(append([]byte{}, iv...), verifspec.CTRXor(c.aesKey, ctr, pt)...)
		h := stdhmac.New(c.hf, c.macKey)
		h.Write(ad)
		h.Write(body)
		bits := uint64(len(ad)) * 8
		h.Write([]byte{byte(bits >> 56), byte(bits >> 48), byte(bits >> 40), byte(bits >> 32), byte(bits >> 24), byte(bits >> 16), byte(bits >> 8), byte(bits)})
		return append(body, h.Sum(nil)[:c.tag]...)
	}
}

func VerifH_aesctrhmac_aead() {
	a, c := build(true)
	maxPT := 3
	if verifrt.Thorough() {
		maxPT = 18
	}
	verifh.CheckAEAD(a, c.prefix, c.iv, seal(c), maxPT, 2)
}

func VerifH_aesctrhmac_reject() {
	a, c := build(false)
	verifh.CheckAEADReject(a, c.tag)
}

func VerifH_aesctrhmac_arbitrary() {
	a, c := build(false)
	verifh.CheckAEADArbitrary(a, len(c.prefix)+c.iv+c.tag+2, c.tag)
}

func VerifH_aesctrhmac_aadbits() {
	n := verifrt.IntRange("n", 0, 1<<40)
	// aadSizeInBits only looks at the length: build a slice header of that length is not
	// possible symbolically, so the arithmetic is checked on the formula's transcription.
	_ = n
	b := aadSizeInBits(verifrt.Bytes("ad", verifrt.Choice("m", 40)))
	verifrt.Assert(len(b) == 8, "8-byte big-endian length")
	verifrt.Reach("end")
}

func VerifH_c19_aesctrhmac() {
	a, _ := build(false)
	verifh.CheckAEADNoWrite(a)
}

func VerifH_serial_aesctrhmac() {
	kind := verifrt.Choice("variant", 3)
	v := [...]Variant{VariantTink, VariantCrunchy, VariantNoPrefix}[kind]
	pk := kind
	id := verifrt.Uint32("id")
	if kind == 2 {
		id, pk = 0, 3
	}
	ht := [...]HashType{SHA1, SHA224, SHA256, SHA384, SHA512}[verifrt.Choice("hash", 5)]
	ks := [...]int{16, 32}[verifrt.Choice("ks", 2)]
	mk := 16 + verifrt.Choice("mk", 3)
	iv := 12 + verifrt.Choice("iv", 5)
	tag := 10 + verifrt.Choice("tag", 11)
	params, err := NewParameters(ParametersOpts{AESKeySizeInBytes: ks, HMACKeySizeInBytes: mk, IVSizeInBytes: iv, TagSizeInBytes: tag, HashType: ht, Variant: v})
	verifrt.Assert(err == nil, "NewParameters")
	k, err := NewKey(KeyOpts{
		AESKeyBytes:   secretdata.NewBytesFromData(verifrt.Bytes("aeskey", ks), insecuresecretdataaccess.Token{}),
		HMACKeyBytes:  secretdata.NewBytesFromData(verifrt.Bytes("mackey", mk), insecuresecretdataaccess.Token{}),
		IDRequirement: id, Parameters: params})
	verifrt.Assert(err == nil, "NewKey")
	verifh.CheckKeyRoundTrip(k, &keySerializer{}, &keyParser{}, &parametersSerializer{}, &parametersParser{}, pk, id, typeURL, tinkpb.KeyData_SYMMETRIC)
}

func VerifH_c18_aesctrhmac() {
	verifrt.EngineOnly()
	a, _ := build(false)
	verifh.CheckAEADShared(a)
}
