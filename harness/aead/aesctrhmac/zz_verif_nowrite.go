package aesctrhmac

import (
	"github.com/tink-crypto/tink-go/v2/insecuresecretdataaccess"
	"github.com/tink-crypto/tink-go/v2/internal/verifh"
	"github.com/tink-crypto/tink-go/v2/internal/verifrt"
	"github.com/tink-crypto/tink-go/v2/secretdata"
)

// C19, key object with two secrets: neither caller slice is written or retained; the three
// byte accessors return fresh copies; the key stays Equal to one made from private copies.
func VerifH_c19_aesctrhmackey() {
	tok := insecuresecretdataaccess.Token{}
	kind := verifrt.Choice("variant", 3)
	v := [...]Variant{VariantTink, VariantCrunchy, VariantNoPrefix}[kind]
	id := verifrt.Uint32("id")
	if kind == 2 {
		id = 0
	}
	ks := [...]int{16, 32}[verifrt.Choice("ks", 2)]
	mk := 16 + verifrt.Choice("mk", 2)*16
	params, err := NewParameters(ParametersOpts{AESKeySizeInBytes: ks, HMACKeySizeInBytes: mk, IVSizeInBytes: 16, TagSizeInBytes: 16, HashType: SHA256, Variant: v})
	verifrt.Assert(err == nil, "NewParameters")
	spare := verifh.SpareProfile("spare")
	ak := verifh.BufWith("aeskey", ks, spare, "caller AES key buffer")
	hk := verifh.BufWith("mackey", mk, spare, "caller HMAC key buffer")
	ak0, hk0 := append([]byte{}, ak...), append([]byte{}, hk...)
	k, err := NewKey(KeyOpts{AESKeyBytes: secretdata.NewBytesFromData(ak, tok), HMACKeyBytes: secretdata.NewBytesFromData(hk, tok), IDRequirement: id, Parameters: params})
	verifrt.Assert(err == nil, "NewKey")
	aes := func() []byte { return k.AESKeyBytes().Data(tok) }
	mac := func() []byte { return k.HMACKeyBytes().Data(tok) }
	verifrt.CheckProtected()
	verifrt.Unprotect(hk) // (natively Unprotect lifts every protection, hence after the check)
	verifrt.Protect(ak, "caller AES key buffer")
	verifh.CheckCtorClones("NewKey(AESKeyBytes)", ak, aes, nil)
	verifh.Scribble(hk)
	verifrt.AssertEq(mac(), hk0, "NewKey(HMACKeyBytes): overwriting the caller's slice after construction does not change the object")
	verifh.CheckAccessorsClone(
		verifh.Accessor{Name: "AESKeyBytes().Data", Get: aes},
		verifh.Accessor{Name: "HMACKeyBytes().Data", Get: mac},
		verifh.Accessor{Name: "OutputPrefix", Get: k.OutputPrefix},
	)
	verifrt.Assert(len(k.OutputPrefix()) == [...]int{5, 5, 0}[kind], "output prefix length")
	ref, err := NewKey(KeyOpts{AESKeyBytes: secretdata.NewBytesFromData(ak0, tok), HMACKeyBytes: secretdata.NewBytesFromData(hk0, tok), IDRequirement: id, Parameters: params})
	verifrt.Assert(err == nil && k.Equal(ref) && ref.Equal(k), "after all the caller's writes the key still equals a key made from the original bytes")
	verifrt.Reach("keyobject-ok")
}
