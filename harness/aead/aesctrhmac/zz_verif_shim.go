package aesctrhmac

import "github.com/tink-crypto/tink-go/v2/tink"

// VerifNewAEAD exposes the package's primitive constructor to harnesses of other packages
// (under the engine the registry, which is filled by init functions, is not available).
func VerifNewAEAD(k *Key) (tink.AEAD, error) { return newAEAD(k) }
