package xaesgcm

import (
	"github.com/tink-crypto/tink-go/v2/internal/verifh"
	"github.com/tink-crypto/tink-go/v2/internal/verifrt"
	"github.com/tink-crypto/tink-go/v2/key"
	"github.com/tink-crypto/tink-go/v2/secretdata"
)

// C19, key object: see verifh.CheckSymKeyObject.
func VerifH_c19_xaesgcmkey() {
	kind := verifrt.Choice("variant", 2)
	v := [...]Variant{VariantTink, VariantNoPrefix}[kind]
	id := verifrt.Uint32("id")
	if kind == 1 {
		id = 0
	}
	params, err := NewParameters(v, 12)
	verifrt.Assert(err == nil, "NewParameters")
	verifh.CheckSymKeyObject(32, func(b secretdata.Bytes) (key.Key, error) { return NewKey(b, id, params) }, nwKeyBytes, nwPrefix, [...]int{5, 0}[kind])
}

func nwKeyBytes(k key.Key) secretdata.Bytes { return k.(*Key).KeyBytes() }
func nwPrefix(k key.Key) []byte             { return k.(*Key).OutputPrefix() }
