package xaesgcm

import (
	tinkpb "github.com/tink-crypto/tink-go/v2/proto/tink_go_proto"
	"github.com/tink-crypto/tink-go/v2/internal/verifmodels"
	"crypto/aes"
	"crypto/cipher"

	"github.com/tink-crypto/tink-go/v2/insecuresecretdataaccess"
	"github.com/tink-crypto/tink-go/v2/internal/internalapi"
	"github.com/tink-crypto/tink-go/v2/internal/verifh"
	"github.com/tink-crypto/tink-go/v2/internal/verifrt"
	"github.com/tink-crypto/tink-go/v2/internal/verifspec"
	"github.com/tink-crypto/tink-go/v2/secretdata"
)

func build() (a verifh.AEAD, keyBytes []byte, prefix []byte, saltSize int) {
	kind := verifrt.Choice("variant", 2)
	v := [...]Variant{VariantTink, VariantNoPrefix}[kind]
	saltSize = 8 + verifrt.Choice("salt", 5)
	keyBytes = verifrt.Bytes("key", 32)
	id := verifrt.Uint32("id")
	pk := 0
	if kind == 1 {
		id = 0
		pk = 3
	}
	params, err := NewParameters(v, saltSize)
	verifrt.Assert(err == nil, "NewParameters accepts salt sizes 8..12")
	k, err := NewKey(secretdata.NewBytesFromData(keyBytes, insecuresecretdataaccess.Token{}), id, params)
	verifrt.Assert(err == nil, "NewKey")
	p, err := NewAEAD(k, internalapi.Token{})
	verifrt.Assert(err == nil, "NewAEAD")
	return p, keyBytes, verifspec.Prefix(pk, id), saltSize
}

// C2SP XAES-256-GCM key derivation, with Tink's generalisation to shorter salts
// (salt zero-padded to 12 bytes): L = E_K(0), K1 = dbl(L),
// Kx = E_K(M1 xor K1), Ky = E_K(M2 xor K1), M_i = 00 0i 58 00 || salt12.
func specDerive(key, salt []byte) []byte {
	bc, _ := aes.NewCipher(key)
	var zero, l [16]byte
	bc.Encrypt(l[:], zero[:])
	k1 := verifspec.Dbl(l)
	out := make([]byte, 32)
	for i := 1; i <= 2; i++ {
		m := [16]byte{0x00, byte(i), 0x58, 0x00}
		copy(m[4:], salt)
		for j := range m {
			m[j] ^= k1[j]
		}
		bc.Encrypt(out[16*(i-1):16*i], m[:])
	}
	return out
}

func seal(key []byte, saltSize int) verifh.SealFn {
	return func(rnd, pt, ad []byte) []byte {
		salt, iv := rnd[:saltSize], rnd[saltSize:]
		c, _ := aes.NewCipher(specDerive(key, salt))
		g, _ := cipher.NewGCM(c)
		return g.Seal(append([]byte{}, rnd...), iv, pt, ad)
	}
}

func VerifH_xaesgcm_aead() {
	a, key, prefix, ss := build()
	verifh.CheckAEAD(a, prefix, ss+12, seal(key, ss), 2, 1)
}

func VerifH_xaesgcm_reject() {
	verifmodels.AESAxioms = true // distinct salts must give distinct per-message keys
	a, _, _, _ := build()
	verifh.CheckAEADReject(a, 16)
}

func VerifH_xaesgcm_arbitrary() {
	a, _, prefix, ss := build()
	verifh.CheckAEADArbitrary(a, len(prefix)+ss+12+16+2, 16)
}

func VerifH_c19_xaesgcm() {
	a, _, _, _ := build()
	verifh.CheckAEADNoWrite(a)
}

func VerifH_serial_xaesgcm() {
	kind := verifrt.Choice("variant", 2)
	v := [...]Variant{VariantTink, VariantNoPrefix}[kind]
	pk := 0
	id := verifrt.Uint32("id")
	if kind == 1 {
		id, pk = 0, 3
	}
	params, err := NewParameters(v, 8+verifrt.Choice("salt", 5))
	verifrt.Assert(err == nil, "NewParameters")
	k, err := NewKey(secretdata.NewBytesFromData(verifrt.Bytes("key", 32), insecuresecretdataaccess.Token{}), id, params)
	verifrt.Assert(err == nil, "NewKey")
	verifh.CheckKeyRoundTrip(k, &keySerializer{}, &keyParser{}, &parametersSerializer{}, &parametersParser{}, pk, id, typeURL, tinkpb.KeyData_SYMMETRIC)
}

func VerifH_c18_xaesgcm() {
	verifrt.EngineOnly()
	a, _, _, _ := build()
	verifh.CheckAEADShared(a)
}
