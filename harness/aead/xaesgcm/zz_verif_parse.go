package xaesgcm

import (
	"google.golang.org/protobuf/proto"

	"github.com/tink-crypto/tink-go/v2/insecuresecretdataaccess"
	"github.com/tink-crypto/tink-go/v2/internal/verifh"
	"github.com/tink-crypto/tink-go/v2/internal/verifrt"
	pb "github.com/tink-crypto/tink-go/v2/proto/x_aes_gcm_go_proto"
	tinkpb "github.com/tink-crypto/tink-go/v2/proto/tink_go_proto"
)

// VerifH_parse_xaesgcm: keyParser.ParseKey on hostile field values.
//
// Documented validity of a X-AES-GCM key coming from a keyset (XAesGcmKey: version, key_value, params.salt_size):
// version 0, key of 32 bytes, SYMMETRIC material, own type URL,
// prefix type TINK/RAW, RAW => id requirement 0.
func VerifH_parse_xaesgcm() {
	h := verifh.NewHostile()
	version := verifrt.Uint32("version")
	n := h.Len("keylen", 32, 0, 1, 15, 16, 17, 31, 33, 63, 64, 65)
	kv := verifrt.Bytes("key", n)
	salt := verifrt.Uint32("salt")
	var params *pb.XAesGcmParams
	if h.Shape("nilparams", 2) == 0 {
		params = &pb.XAesGcmParams{SaltSize: salt}
	} else {
		salt = 0 // absent params read as salt size 0
	}
	var value []byte
	if h.Shape("emptyvalue", 2) == 1 {
		// KeyData.value empty: the all-defaults message
		version, kv, n = 0, nil, 0
		salt = 0
	} else {
		var err error
		value, err = proto.Marshal(&pb.XAesGcmKey{Version: version, KeyValue: kv, Params: params})
		verifrt.Assert(err == nil, "marshal")
	}
	if !h.Wrap(typeURL, value) {
		return
	}
	k, err := (&keyParser{}).ParseKey(h.KS)
	valid := verifrt.And(h.EnvelopeValidKinds(tinkpb.KeyData_SYMMETRIC, 0b1001), verifrt.And(version == 0, n == 32))
	valid = verifrt.And(valid, salt >= 8 && salt <= 12)
	verifrt.Assert(verifrt.Implies(err == nil, valid), "accepted => version 0, key 32 bytes, salt size in [8, 12], SYMMETRIC, own type URL, supported prefix type, RAW => id 0")
	verifrt.Assert(verifrt.Implies(valid, err == nil), "every valid X-AES-GCM key is accepted")
	if err != nil {
		verifrt.Reach("rejected")
		return
	}
	h.CheckParsedEnvelope(k)
	ak, ok := k.(*Key)
	verifrt.Assert(ok && ak != nil, "parsed key is *xaesgcm.Key")
	p := ak.Parameters().(*Parameters)
	verifrt.Assert(p.SaltSizeInBytes() == int(salt), "parameters: salt size = params.salt_size")
	verifrt.Assert(p.Variant() == [...]Variant{VariantTink, VariantUnknown, VariantUnknown, VariantNoPrefix}[h.Kind()], "variant mirrors the prefix type")
	verifrt.AssertEq(ak.KeyBytes().Data(insecuresecretdataaccess.Token{}), kv, "key bytes are key_value")
	verifrt.AssertEq(ak.OutputPrefix(), h.WantPrefix(), "output prefix of (prefix type, id)")
	verifrt.Reach("accepted")
}

// VerifH_parse_xaesgcm_params: parametersParser.Parse on a hostile key template (XAesGcmKeyFormat: version, params.salt_size).
func VerifH_parse_xaesgcm_params() {
	version := verifrt.Uint32("version")
	salt := verifrt.Uint32("salt")
	var params *pb.XAesGcmParams
	if verifrt.Choice("nilparams", 2) == 0 {
		params = &pb.XAesGcmParams{SaltSize: salt}
	} else {
		salt = 0
	}
	value, err := proto.Marshal(&pb.XAesGcmKeyFormat{Version: version, Params: params})
	verifrt.Assert(err == nil, "marshal")
	t, urlOK, prefix := verifh.HostileTemplate(typeURL, value)
	p, err := (&parametersParser{}).Parse(t)
	kind := verifh.KindOf(prefix)
	valid := verifrt.And(urlOK && kind >= 0 && kind != 1 && kind != 2, verifrt.And(version == 0, salt >= 8 && salt <= 12))
	verifrt.Assert((err == nil) == valid, "template accepted <=> own type URL, version 0, salt size in [8, 12], supported prefix type")
	if err != nil {
		verifrt.Reach("rejected")
		return
	}
	ap := p.(*Parameters)
	verifrt.Assert(ap.SaltSizeInBytes() == int(salt), "parameters mirror the format")
	verifrt.Assert(ap.Variant() == [...]Variant{VariantTink, VariantUnknown, VariantUnknown, VariantNoPrefix}[kind], "variant mirrors the prefix type")
	verifrt.Assert(ap.HasIDRequirement() == (kind != 3), "id requirement iff not RAW")
	_, nerr := (&parametersParser{}).Parse(nil)
	verifrt.Assert(nerr != nil, "nil template rejected, no panic")
	verifrt.Reach("accepted")
}
