package aead

import (
	"github.com/tink-crypto/tink-go/v2/internal/verifrt"
	ctrhmacpb "github.com/tink-crypto/tink-go/v2/proto/aes_ctr_hmac_aead_go_proto"
	gcmpb "github.com/tink-crypto/tink-go/v2/proto/aes_gcm_go_proto"
	gcmsivpb "github.com/tink-crypto/tink-go/v2/proto/aes_gcm_siv_go_proto"
	commonpb "github.com/tink-crypto/tink-go/v2/proto/common_go_proto"
	kmsenvpb "github.com/tink-crypto/tink-go/v2/proto/kms_envelope_go_proto"
	tinkpb "github.com/tink-crypto/tink-go/v2/proto/tink_go_proto"
	xaesgcmpb "github.com/tink-crypto/tink-go/v2/proto/x_aes_gcm_go_proto"
	xchachapb "github.com/tink-crypto/tink-go/v2/proto/xchacha20_poly1305_go_proto"
	"google.golang.org/protobuf/proto"
)

// C12, aead/aead_key_templates.go: what the NAME and the doc comment of each exported AEAD key
// template promise, written out by hand, against the template actually returned. The table is
// NOT derived from the helper calls of the implementation:
//   - AESnnn...      => AES key of nnn/8 bytes
//   - ...NoPrefix... => RAW output prefix, every other name => TINK
//   - XAES256GCM<b>BitNonce: the X-AES-GCM nonce is salt || 12-byte GCM nonce, so
//     192 bit = 24 bytes => salt 12, 160 bit = 20 bytes => salt 8 (doc comment says the same)
//   - AESnnnCTRHMACSHA256: doc comment lists AES key, IV 16, HMAC key 32, tag 16 (AES128) /
//     32 (AES256), SHA256
//   - (X)ChaCha20Poly1305: no parameters; key format empty (or version 0 only)
const (
	ktFamGCM = iota
	ktFamXAESGCM
	ktFamGCMSIV
	ktFamCTRHMAC
	ktFamChaCha
	ktFamXChaCha
)

type ktRow struct {
	name string
	fn   func() *tinkpb.KeyTemplate
	fam  int
	raw  bool
	// GCM / GCM-SIV / CTR: AES key bytes; X-AES-GCM: salt bytes
	size uint32
	// AES-CTR-HMAC only
	iv, macKey, tag uint32
	hash            commonpb.HashType
}

var ktTable = [14]ktRow{
	{name: "AES128GCMKeyTemplate", fn: AES128GCMKeyTemplate, fam: ktFamGCM, size: 16},
	{name: "AES256GCMKeyTemplate", fn: AES256GCMKeyTemplate, fam: ktFamGCM, size: 32},
	{name: "AES256GCMNoPrefixKeyTemplate", fn: AES256GCMNoPrefixKeyTemplate, fam: ktFamGCM, size: 32, raw: true},
	{name: "XAES256GCM192BitNonceKeyTemplate", fn: XAES256GCM192BitNonceKeyTemplate, fam: ktFamXAESGCM, size: 12},
	{name: "XAES256GCM192BitNonceNoPrefixKeyTemplate", fn: XAES256GCM192BitNonceNoPrefixKeyTemplate, fam: ktFamXAESGCM, size: 12, raw: true},
	{name: "XAES256GCM160BitNonceKeyTemplate", fn: XAES256GCM160BitNonceKeyTemplate, fam: ktFamXAESGCM, size: 8},
	{name: "XAES256GCM160BitNonceNoPrefixKeyTemplate", fn: XAES256GCM160BitNonceNoPrefixKeyTemplate, fam: ktFamXAESGCM, size: 8, raw: true},
	{name: "AES128GCMSIVKeyTemplate", fn: AES128GCMSIVKeyTemplate, fam: ktFamGCMSIV, size: 16},
	{name: "AES256GCMSIVKeyTemplate", fn: AES256GCMSIVKeyTemplate, fam: ktFamGCMSIV, size: 32},
	{name: "AES256GCMSIVNoPrefixKeyTemplate", fn: AES256GCMSIVNoPrefixKeyTemplate, fam: ktFamGCMSIV, size: 32, raw: true},
	{name: "AES128CTRHMACSHA256KeyTemplate", fn: AES128CTRHMACSHA256KeyTemplate, fam: ktFamCTRHMAC, size: 16, iv: 16, macKey: 32, tag: 16, hash: commonpb.HashType_SHA256},
	{name: "AES256CTRHMACSHA256KeyTemplate", fn: AES256CTRHMACSHA256KeyTemplate, fam: ktFamCTRHMAC, size: 32, iv: 16, macKey: 32, tag: 32, hash: commonpb.HashType_SHA256},
	{name: "ChaCha20Poly1305KeyTemplate", fn: ChaCha20Poly1305KeyTemplate, fam: ktFamChaCha},
	{name: "XChaCha20Poly1305KeyTemplate", fn: XChaCha20Poly1305KeyTemplate, fam: ktFamXChaCha},
}

const ktTypePrefix = "type.googleapis.com/google.crypto.tink."

// ktCheckRow asserts every field of the template produced by row.fn.
func ktCheckRow(row ktRow) {
	t := row.fn()
	verifrt.Assert(t != nil, "template")
	wantPrefix := tinkpb.OutputPrefixType_TINK
	if row.raw {
		wantPrefix = tinkpb.OutputPrefixType_RAW
	}
	verifrt.Assert(t.GetOutputPrefixType() == wantPrefix, "NoPrefix templates are RAW, the others TINK")
	switch row.fam {
	case ktFamGCM:
		verifrt.Assert(t.GetTypeUrl() == ktTypePrefix+"AesGcmKey", "type URL AesGcmKey")
		f := &gcmpb.AesGcmKeyFormat{}
		verifrt.Assert(proto.Unmarshal(t.GetValue(), f) == nil, "key format parses")
		verifrt.Assert(f.GetKeySize() == row.size && f.GetVersion() == 0, "AESnnnGCM template: key size nnn/8, version 0")
	case ktFamXAESGCM:
		verifrt.Assert(t.GetTypeUrl() == ktTypePrefix+"XAesGcmKey", "type URL XAesGcmKey")
		f := &xaesgcmpb.XAesGcmKeyFormat{}
		verifrt.Assert(proto.Unmarshal(t.GetValue(), f) == nil, "key format parses")
		verifrt.Assert(f.GetParams() != nil && f.GetParams().GetSaltSize() == row.size && f.GetVersion() == 0, "XAES256GCM<b>BitNonce template: salt size b/8-12, version 0")
	case ktFamGCMSIV:
		verifrt.Assert(t.GetTypeUrl() == ktTypePrefix+"AesGcmSivKey", "type URL AesGcmSivKey")
		f := &gcmsivpb.AesGcmSivKeyFormat{}
		verifrt.Assert(proto.Unmarshal(t.GetValue(), f) == nil, "key format parses")
		verifrt.Assert(f.GetKeySize() == row.size && f.GetVersion() == 0, "AESnnnGCMSIV template: key size nnn/8, version 0")
	case ktFamCTRHMAC:
		verifrt.Assert(t.GetTypeUrl() == ktTypePrefix+"AesCtrHmacAeadKey", "type URL AesCtrHmacAeadKey")
		f := &ctrhmacpb.AesCtrHmacAeadKeyFormat{}
		verifrt.Assert(proto.Unmarshal(t.GetValue(), f) == nil, "key format parses")
		c, h := f.GetAesCtrKeyFormat(), f.GetHmacKeyFormat()
		verifrt.Assert(c != nil && c.GetParams() != nil && h != nil && h.GetParams() != nil, "both sub-formats and their params present")
		verifrt.Assert(c.GetKeySize() == row.size, "AESnnnCTRHMAC template: AES key size nnn/8")
		verifrt.Assert(c.GetParams().GetIvSize() == row.iv, "AES-CTR IV size of the doc comment")
		verifrt.Assert(h.GetKeySize() == row.macKey, "HMAC key size of the doc comment")
		verifrt.Assert(h.GetParams().GetTagSize() == row.tag, "HMAC tag size of the doc comment")
		verifrt.Assert(h.GetParams().GetHash() == row.hash, "HMAC hash of the name")
		verifrt.Assert(h.GetVersion() == 0, "HMAC key format version 0")
	case ktFamChaCha:
		verifrt.Assert(t.GetTypeUrl() == ktTypePrefix+"ChaCha20Poly1305Key", "type URL ChaCha20Poly1305Key")
		verifrt.Assert(len(t.GetValue()) == 0, "ChaCha20Poly1305KeyFormat has no fields: empty value")
	case ktFamXChaCha:
		verifrt.Assert(t.GetTypeUrl() == ktTypePrefix+"XChaCha20Poly1305Key", "type URL XChaCha20Poly1305Key")
		f := &xchachapb.XChaCha20Poly1305KeyFormat{}
		verifrt.Assert(proto.Unmarshal(t.GetValue(), f) == nil, "key format parses")
		verifrt.Assert(f.GetVersion() == 0, "version 0")
	}
}

// DEK templates offered to the KMS envelope template constructors: one per AEAD key type the
// doc comment of CreateKMSEnvelopeAEADKeyTemplate lists as accepted (fresh literals, not the
// functions under test), then key types the doc comment says are rejected.
const ktKMSAccepted = 5

func ktDEKTemplate(i int) *tinkpb.KeyTemplate {
	switch i {
	case 0:
		return &tinkpb.KeyTemplate{TypeUrl: ktTypePrefix + "AesCtrHmacAeadKey", Value: []byte{0x0a, 0x02, 0x10, 0x10}, OutputPrefixType: tinkpb.OutputPrefixType_TINK}
	case 1:
		return &tinkpb.KeyTemplate{TypeUrl: ktTypePrefix + "AesGcmKey", Value: []byte{0x10, 0x20}, OutputPrefixType: tinkpb.OutputPrefixType_RAW}
	case 2:
		return &tinkpb.KeyTemplate{TypeUrl: ktTypePrefix + "ChaCha20Poly1305Key", OutputPrefixType: tinkpb.OutputPrefixType_CRUNCHY}
	case 3:
		return &tinkpb.KeyTemplate{TypeUrl: ktTypePrefix + "XChaCha20Poly1305Key", OutputPrefixType: tinkpb.OutputPrefixType_TINK}
	case 4:
		return &tinkpb.KeyTemplate{TypeUrl: ktTypePrefix + "AesGcmSivKey", Value: []byte{0x10, 0x10}, OutputPrefixType: tinkpb.OutputPrefixType_LEGACY}
	case 5:
		return &tinkpb.KeyTemplate{TypeUrl: ktTypePrefix + "HmacKey", Value: []byte{0x10, 0x20}, OutputPrefixType: tinkpb.OutputPrefixType_TINK}
	case 6:
		return &tinkpb.KeyTemplate{TypeUrl: ktTypePrefix + "KmsEnvelopeAeadKey", OutputPrefixType: tinkpb.OutputPrefixType_RAW}
	case 7:
		return &tinkpb.KeyTemplate{TypeUrl: ktTypePrefix + "AesSivKey", Value: []byte{0x08, 0x40}, OutputPrefixType: tinkpb.OutputPrefixType_TINK}
	}
	return &tinkpb.KeyTemplate{TypeUrl: "", OutputPrefixType: tinkpb.OutputPrefixType_TINK}
}

var ktURIs = [3]string{"fake-kms://kek-1", "", "gcp-kms://projects/p/locations/l/keyRings/r/cryptoKeys/k"}

func ktCheckKMS(t *tinkpb.KeyTemplate, uri string, dek *tinkpb.KeyTemplate) {
	verifrt.Assert(t != nil, "template")
	verifrt.Assert(t.GetTypeUrl() == ktTypePrefix+"KmsEnvelopeAeadKey", "type URL KmsEnvelopeAeadKey")
	verifrt.Assert(t.GetOutputPrefixType() == tinkpb.OutputPrefixType_RAW, "KMS envelope templates are RAW")
	f := &kmsenvpb.KmsEnvelopeAeadKeyFormat{}
	verifrt.Assert(proto.Unmarshal(t.GetValue(), f) == nil, "key format parses")
	verifrt.Assert(f.GetKekUri() == uri, "KEK URI is the one given")
	d := f.GetDekTemplate()
	verifrt.Assert(d != nil, "DEK template present")
	verifrt.Assert(d.GetTypeUrl() == dek.GetTypeUrl(), "DEK template type URL is the one given")
	verifrt.Assert(d.GetOutputPrefixType() == dek.GetOutputPrefixType(), "DEK template prefix type is the one given")
	verifrt.AssertEq(d.GetValue(), dek.GetValue(), "DEK template value is the one given")
}

func VerifH_templates_aead() {
	n := verifrt.Choice("tmpl", 14+2)
	if n < 14 {
		ktCheckRow(ktTable[n])
		verifrt.Reach("end")
		return
	}
	// CreateKMSEnvelopeAEADKeyTemplate / KMSEnvelopeAEADKeyTemplate
	di := verifrt.Choice("dek", 9)
	uri := ktURIs[verifrt.Choice("uri", 3)]
	dek := ktDEKTemplate(di)
	if n == 14 {
		t, err := CreateKMSEnvelopeAEADKeyTemplate(uri, dek)
		if di < ktKMSAccepted {
			verifrt.Assert(err == nil, "the five listed AEAD DEK key types are accepted")
			ktCheckKMS(t, uri, dek)
		} else {
			verifrt.Assert(err != nil && t == nil, "any other DEK key type is rejected")
		}
		verifrt.Reach("end")
		return
	}
	var t *tinkpb.KeyTemplate
	panicked := verifrt.ExpectPanic(func() { t = KMSEnvelopeAEADKeyTemplate(uri, dek) })
	if di < ktKMSAccepted {
		verifrt.Assert(!panicked, "the five listed AEAD DEK key types are accepted")
		ktCheckKMS(t, uri, dek)
	} else {
		verifrt.Assert(panicked, "any other DEK key type interrupts the program")
	}
	verifrt.Reach("end")
}
