package aesgcm

import (
	"google.golang.org/protobuf/proto"

	"github.com/tink-crypto/tink-go/v2/insecuresecretdataaccess"
	"github.com/tink-crypto/tink-go/v2/internal/verifh"
	"github.com/tink-crypto/tink-go/v2/internal/verifrt"
	gcmpb "github.com/tink-crypto/tink-go/v2/proto/aes_gcm_go_proto"
	tinkpb "github.com/tink-crypto/tink-go/v2/proto/tink_go_proto"
)

// VerifH_parse_aesgcm: keyParser.ParseKey / parametersParser.Parse on hostile field values.
//
// Documented validity of an AES-GCM key coming from a keyset (AesGcmKey: version, key_value;
// the wire format fixes IV 12 and tag 16): version 0, key of 16, 24 or 32 bytes
// (aesgcm.NewParameters: "want 16, 24, or 32"; the primitive additionally refuses 24),
// SYMMETRIC material, type URL of AesGcmKey, prefix TINK/CRUNCHY/LEGACY/RAW, RAW => id 0.
func VerifH_parse_aesgcm() {
	h := verifh.NewHostile()
	version := verifrt.Uint32("version")
	n := h.Len("keylen", 32, 0, 1, 15, 16, 17, 24, 31, 33, 63, 64, 65)
	kv := verifrt.Bytes("key", n)
	var value []byte
	if h.Shape("emptyvalue", 2) == 1 {
		// KeyData.value empty: the all-defaults message
		version, kv, n = 0, nil, 0
	} else {
		var err error
		value, err = proto.Marshal(&gcmpb.AesGcmKey{Version: version, KeyValue: kv})
		verifrt.Assert(err == nil, "marshal")
	}
	if !h.Wrap(typeURL, value) {
		return
	}
	k, err := (&keyParser{}).ParseKey(h.KS)
	valid := verifrt.And(h.EnvelopeValid(tinkpb.KeyData_SYMMETRIC, true), verifrt.And(version == 0, n == 16 || n == 24 || n == 32))
	verifrt.Assert(verifrt.Implies(err == nil, valid), "accepted => version 0, key 16/24/32 bytes, SYMMETRIC, own type URL, known prefix type, RAW => id 0")
	verifrt.Assert(verifrt.Implies(valid, err == nil), "every valid AES-GCM key is accepted")
	if err != nil {
		verifrt.Reach("rejected")
		return
	}
	h.CheckParsedEnvelope(k)
	ak, ok := k.(*Key)
	verifrt.Assert(ok && ak != nil, "parsed key is *aesgcm.Key")
	p := ak.Parameters().(*Parameters)
	verifrt.Assert(p.KeySizeInBytes() == n && p.IVSizeInBytes() == 12 && p.TagSizeInBytes() == 16, "parameters: key size = len(key_value), IV 12, tag 16")
	wantV := [...]Variant{VariantTink, VariantCrunchy, VariantCrunchy, VariantNoPrefix}[h.Kind()]
	verifrt.Assert(p.Variant() == wantV, "variant mirrors the prefix type (LEGACY -> CRUNCHY)")
	verifrt.AssertEq(ak.KeyBytes().Data(insecuresecretdataaccess.Token{}), kv, "key bytes are key_value")
	verifrt.AssertEq(ak.OutputPrefix(), h.WantPrefix(), "output prefix of (prefix type, id)")
	// the primitive: only 16 / 32 byte AES keys are usable
	a, perr := NewAEAD(ak)
	verifrt.Assert((perr == nil) == (n == 16 || n == 32), "NewAEAD usable iff key is 16 or 32 bytes")
	verifrt.Assert((perr == nil) == (a != nil), "NewAEAD: error xor primitive")
	verifrt.Reach("accepted")
}

// VerifH_parse_aesgcm_params: the key format (AesGcmKeyFormat: key_size, version).
func VerifH_parse_aesgcm_params() {
	version := verifrt.Uint32("version")
	ks := verifrt.Uint32("keysize")
	value, err := proto.Marshal(&gcmpb.AesGcmKeyFormat{Version: version, KeySize: ks})
	verifrt.Assert(err == nil, "marshal")
	t, urlOK, prefix := verifh.HostileTemplate(typeURL, value)
	p, err := (&parametersParser{}).Parse(t)
	kind := verifh.KindOf(prefix)
	valid := verifrt.And(urlOK && kind >= 0, verifrt.And(version == 0, ks == 16 || ks == 24 || ks == 32))
	verifrt.Assert((err == nil) == valid, "template accepted <=> own type URL, version 0, key size 16/24/32, known prefix type")
	if err != nil {
		verifrt.Reach("rejected")
		return
	}
	ap := p.(*Parameters)
	verifrt.Assert(ap.KeySizeInBytes() == int(ks) && ap.IVSizeInBytes() == 12 && ap.TagSizeInBytes() == 16, "parameters mirror the format")
	verifrt.Assert(ap.Variant() == [...]Variant{VariantTink, VariantCrunchy, VariantCrunchy, VariantNoPrefix}[kind], "variant mirrors the prefix type")
	verifrt.Assert(ap.HasIDRequirement() == (kind != 3), "id requirement iff not RAW")
	_, nerr := (&parametersParser{}).Parse(nil)
	verifrt.Assert(nerr != nil, "nil template rejected, no panic")
	verifrt.Reach("accepted")
}
