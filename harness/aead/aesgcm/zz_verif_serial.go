package aesgcm

import "github.com/tink-crypto/tink-go/v2/internal/verifh"

// VerifSerializers exposes this package's (unexported) proto serializers/parsers and type URL
// to the harnesses of composite key types (keyderivation/prfbasedkeyderivation, hybrid/ecies), which
// dispatch to them exactly as the registry does after this package's init().
func VerifSerializers() (verifh.KeySer, verifh.KeyPar, verifh.ParSer, verifh.ParPar) {
	return &keySerializer{}, &keyParser{}, &parametersSerializer{}, &parametersParser{}
}

const VerifTypeURL = typeURL
