package aesgcm

import (
	tinkpb "github.com/tink-crypto/tink-go/v2/proto/tink_go_proto"
	"crypto/aes"
	"crypto/cipher"

	"github.com/tink-crypto/tink-go/v2/insecuresecretdataaccess"
	"github.com/tink-crypto/tink-go/v2/internal/verifh"
	"github.com/tink-crypto/tink-go/v2/internal/verifrt"
	"github.com/tink-crypto/tink-go/v2/internal/verifspec"
	"github.com/tink-crypto/tink-go/v2/secretdata"
)

func build() (a *fullAEAD, keyBytes []byte, prefix []byte) {
	kind := verifrt.Choice("variant", 3)
	v := [...]Variant{VariantTink, VariantCrunchy, VariantNoPrefix}[kind]
	ks := verifh.KeySize("ks")
	keyBytes = verifrt.Bytes("key", ks)
	id := verifrt.Uint32("id")
	pk := kind
	if kind == 2 {
		id = 0
		pk = 3
	}
	params, err := NewParameters(ParametersOpts{KeySizeInBytes: ks, IVSizeInBytes: 12, TagSizeInBytes: 16, Variant: v})
	verifrt.Assert(err == nil, "NewParameters")
	k, err := NewKey(secretdata.NewBytesFromData(keyBytes, insecuresecretdataaccess.Token{}), id, params)
	verifrt.Assert(err == nil, "NewKey")
	p, err := NewAEAD(k)
	verifrt.Assert(err == nil, "NewAEAD")
	return p.(*fullAEAD), keyBytes, verifspec.Prefix(pk, id)
}

func seal(key []byte) verifh.SealFn {
	return func(iv, pt, ad []byte) []byte {
		c, _ := aes.NewCipher(key)
		g, _ := cipher.NewGCM(c)
		return g.Seal(append([]byte{}, iv...), iv, pt, ad)
	}
}

func VerifH_aesgcm_aead() {
	a, key, prefix := build()
	verifh.CheckAEAD(a, prefix, 12, seal(key), 3, 2)
}

func VerifH_aesgcm_reject() {
	a, _, _ := build()
	verifh.CheckAEADReject(a, 16)
}

func VerifH_aesgcm_arbitrary() {
	a, _, prefix := build()
	verifh.CheckAEADArbitrary(a, len(prefix)+12+16+2, 16)
}

func VerifH_c19_aesgcm() {
	a, _, _ := build()
	verifh.CheckAEADNoWrite(a)
}

func VerifH_serial_aesgcm() {
	kind := verifrt.Choice("variant", 3)
	v := [...]Variant{VariantTink, VariantCrunchy, VariantNoPrefix}[kind]
	pk := kind
	ks := [...]int{16, 32}[verifrt.Choice("ks", 2)]
	id := verifrt.Uint32("id")
	if kind == 2 {
		id, pk = 0, 3
	}
	params, err := NewParameters(ParametersOpts{KeySizeInBytes: ks, IVSizeInBytes: 12, TagSizeInBytes: 16, Variant: v})
	verifrt.Assert(err == nil, "NewParameters")
	k, err := NewKey(secretdata.NewBytesFromData(verifrt.Bytes("key", ks), insecuresecretdataaccess.Token{}), id, params)
	verifrt.Assert(err == nil, "NewKey")
	verifh.CheckKeyRoundTrip(k, &keySerializer{}, &keyParser{}, &parametersSerializer{}, &parametersParser{}, pk, id, typeURL, tinkpbSymmetric)
}
const tinkpbSymmetric = tinkpb.KeyData_SYMMETRIC

func VerifH_c18_aesgcm() {
	verifrt.EngineOnly()
	a, _, _ := build()
	verifh.CheckAEADShared(a)
}

// Every parameter combination NewParameters accepts (key 16 / 24 / 32, any IV size > 0, tag
// 12..16): the key and parameters serializers either refuse it (the proto format has no IV /
// tag size fields, so only IV 12 / tag 16 is representable) or the round trip gives an Equal
// object. What must not happen is a silent change of parameters on the way through a keyset.
func VerifH_serial_aesgcm_sizes() {
	kind := verifrt.Choice("variant", 3)
	v := [...]Variant{VariantTink, VariantCrunchy, VariantNoPrefix}[kind]
	ks := [...]int{16, 24, 32}[verifrt.Choice("ks", 3)]
	iv := [...]int{1, 11, 12, 13, 16}[verifrt.Choice("iv", 5)]
	tag := 12 + verifrt.Choice("tag", 5)
	id := verifrt.Uint32("id")
	if kind == 2 {
		id = 0
	}
	params, err := NewParameters(ParametersOpts{KeySizeInBytes: ks, IVSizeInBytes: iv, TagSizeInBytes: tag, Variant: v})
	verifrt.Assert(err == nil, "NewParameters accepts key 16/24/32, IV > 0, tag 12..16")
	k, err := NewKey(secretdata.NewBytesFromData(verifrt.Bytes("key", ks), insecuresecretdataaccess.Token{}), id, params)
	verifrt.Assert(err == nil, "NewKey")
	if ser, err := (&keySerializer{}).SerializeKey(k); err == nil {
		back, err := (&keyParser{}).ParseKey(ser)
		verifrt.Assert(err == nil && back != nil && back.Equal(k), "a key that serializes parses back to an Equal key (same IV and tag size)")
		verifrt.Reach("key-roundtrip")
	} else {
		verifrt.Assert(iv != 12 || tag != 16, "the standard sizes always serialize")
		verifrt.Reach("key-refused")
	}
	if tpl, err := (&parametersSerializer{}).Serialize(params); err == nil {
		back, err := (&parametersParser{}).Parse(tpl)
		verifrt.Assert(err == nil && back != nil && back.Equal(params), "parameters that serialize parse back to Equal parameters (same IV and tag size)")
		verifrt.Reach("params-roundtrip")
	} else {
		verifrt.Assert(iv != 12 || tag != 16, "the standard sizes always serialize")
		verifrt.Reach("params-refused")
	}
}
