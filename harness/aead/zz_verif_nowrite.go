package aead

import (
	"github.com/tink-crypto/tink-go/v2/internal/verifh"
	"github.com/tink-crypto/tink-go/v2/internal/verifrt"
	tinkpb "github.com/tink-crypto/tink-go/v2/proto/tink_go_proto"
)

// C19 for the KMS envelope AEAD (stub remote KEK with 0..2 bytes of framing, DEK AEAD handed
// out by the summarised registry): Encrypt / Decrypt write neither into the caller's
// plaintext, associated data or ciphertext buffers nor into their spare capacity (the
// envelope parser slices the caller's ciphertext and hands the slices to the KEK and DEK
// AEADs; it must not shift or patch it in place), and return fresh memory.
func VerifH_c19_kmsenvelope() {
	verifrt.NativeSkip("the registry is summarised")
	summariseRegistry()
	a := NewKMSEnvelopeAEAD2(&tinkpb.KeyTemplate{TypeUrl: aesGCMTypeURL}, stubKEK{pad: verifrt.Choice("pad", 3)})
	verifh.CheckAEADNoWrite(a)
}
