package aead

import (
	"github.com/tink-crypto/tink-go/v2/internal/verifh"
	"github.com/tink-crypto/tink-go/v2/internal/verifrt"
	tinkpb "github.com/tink-crypto/tink-go/v2/proto/tink_go_proto"
)

// invDEK is a DEK AEAD that round-trips (the C01 stub is an uninterpreted function and
// does not): ciphertext = key[0] || plaintext || len(ad).
type invDEK struct{ key []byte }

func (d *invDEK) Encrypt(pt, ad []byte) ([]byte, error) {
	out := append([]byte{d.key[0]}, pt...)
	return append(out, byte(len(ad))), nil
}

func (d *invDEK) Decrypt(ct, ad []byte) ([]byte, error) {
	if len(ct) < 2 || ct[0] != d.key[0] || ct[len(ct)-1] != byte(len(ad)) {
		return nil, errBadDEK
	}
	return append([]byte{}, ct[1:len(ct)-1]...), nil
}

var errBadDEK = &dekError{}

type dekError struct{}

func (*dekError) Error() string { return "stub dek: bad ciphertext" }

// C18 (sufficient condition) for the KMS envelope AEAD: the primitive (template, KEK AEAD)
// is frozen after construction; two Encrypt and two Decrypt calls only read it. Every call
// creates its own DEK and DEK primitive.
func VerifH_c18_kmsenvelope() {
	verifrt.EngineOnly()
	verifrt.Summarize("core/registry.Primitive", func(typeURL string, serializedKey []byte) (any, error) {
		return &invDEK{key: append([]byte{}, serializedKey...)}, nil
	})
	verifrt.Summarize("core/registry.NewKeyData", func(t *tinkpb.KeyTemplate) (*tinkpb.KeyData, error) {
		return &tinkpb.KeyData{TypeUrl: t.GetTypeUrl(), Value: verifrt.FreshBytes("dek", 4)}, nil
	})
	a := NewKMSEnvelopeAEAD2(&tinkpb.KeyTemplate{TypeUrl: aesGCMTypeURL}, stubKEK{pad: verifrt.Choice("pad", 2)})
	verifh.CheckAEADShared(a)
}

// C18 (sufficient condition) for the keyset-level AEAD: the wrapped primitive built by the
// real factory from a symbolic keyset (1..2 keys, TINK/CRUNCHY/RAW, any status, full or
// legacy per-key primitives behind the real adapter, real prefix map, loggers from a
// stateless monitoring client) is frozen together with the handle; two Encrypt and two
// Decrypt calls only read it.
func VerifH_c18_aeadfactory() {
	verifrt.EngineOnly()
	ks := verifh.SymbolicKeyset(2, []int{0, 1, 3}, true)
	verifh.InstallROMonitoring()
	a, err := NewWithConfig(ks.Handle, stubConfig{})
	verifrt.Assert(err == nil, "NewWithConfig succeeds")
	verifrt.Freeze(ks.Handle, "state shared between concurrent calls (keyset handle)")
	verifh.CheckAEADShared(a)
}
