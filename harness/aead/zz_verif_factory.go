package aead

import (
	"errors"

	"github.com/tink-crypto/tink-go/v2/internal/internalapi"
	"github.com/tink-crypto/tink-go/v2/internal/registryconfig/legacyprimitive"
	"github.com/tink-crypto/tink-go/v2/internal/verifh"
	"github.com/tink-crypto/tink-go/v2/internal/verifrt"
	"github.com/tink-crypto/tink-go/v2/key"
)

// idealAEAD is the per-key primitive of the stub config: it accepts exactly its own outputs.
// full: handles its output prefix itself (as real full primitives do); otherwise raw.
type idealAEAD struct {
	k    *verifh.FKey
	full bool
}

func (a *idealAEAD) prefix() []byte {
	if a.full {
		return a.k.WithHead(a.k.OutputPrefix())
	}
	return a.k.WithHead(nil)
}

func (a *idealAEAD) Encrypt(pt, ad []byte) ([]byte, error) {
	out := append(a.prefix(), 0xC0+byte(a.k.Idx), byte(len(ad)))
	return append(out, pt...), nil
}

func (a *idealAEAD) Decrypt(ct, ad []byte) ([]byte, error) {
	p := a.prefix()
	if len(ct) < len(p)+2 {
		return nil, errors.New("ideal: too short")
	}
	for i := range p {
		if ct[i] != p[i] {
			return nil, errors.New("ideal: wrong prefix")
		}
	}
	if ct[len(p)] != 0xC0+byte(a.k.Idx) || ct[len(p)+1] != byte(len(ad)) {
		return nil, errors.New("ideal: not mine")
	}
	return append([]byte{}, ct[len(p)+2:]...), nil
}

type stubConfig struct{}

func (stubConfig) PrimitiveFromKey(k key.Key, _ internalapi.Token) (any, error) {
	fk := k.(*verifh.FKey)
	if fk.Legacy {
		return legacyprimitive.New(&idealAEAD{k: fk, full: false}), nil
	}
	return &idealAEAD{k: fk, full: true}, nil
}

func factoryMax() int {
	if verifrt.Thorough() {
		return 3
	}
	return 2
}

// The keyset AEAD encrypts with the primary only and decrypts an input iff some ENABLED
// key whose prefix it carries (or which has none) accepts it; logging names that key.
func VerifH_factory_aead() {
	rec := verifh.InstallMonitoring()
	ks := verifh.SymbolicKeyset(factoryMax(), []int{0, 1, 3}, true)
	a, err := NewWithConfig(ks.Handle, stubConfig{})
	verifrt.Assert(err == nil, "NewWithConfig succeeds")
	pt := verifrt.Bytes("pt", verifrt.Choice("ptn", 2))
	ad := verifrt.Bytes("ad", 1)
	mark := len(rec.Events)
	ct, err := a.Encrypt(pt, ad)
	verifrt.Assert(err == nil, "Encrypt succeeds")
	prim := ks.Keys[ks.Primary]
	want, _ := (&idealAEAD{k: prim, full: true}).Encrypt(pt, ad)
	verifrt.AssertEq(ct, want, "Encrypt == primary key's output with the primary's prefix")
	ev := rec.Since(mark, "encrypt")
	verifrt.Assert(len(ev) == 1 && !ev[0].Failure && ev[0].KeyID == prim.ID && ev[0].N == len(pt), "encrypt logged once, naming the primary key")

	// arbitrary input
	x := verifrt.Bytes("x", [...]int{0, 1, 4, 5, 6, 7, 8}[verifrt.Choice("xn", 7)])
	mark = len(rec.Events)
	got, err := a.Decrypt(x, ad)
	// reference selection: enabled keys in keyset order, 5-byte-prefix matches first, then RAW
	accepted := -1
	var wantPT []byte
	for pass := 0; pass < 2 && accepted < 0; pass++ {
		for i, k := range ks.Keys {
			if !ks.Enabled(i) || (k.Kind == 3) != (pass == 1) {
				continue
			}
			if p, e := (&idealAEAD{k: k, full: true}).Decrypt(x, ad); e == nil && accepted < 0 {
				accepted, wantPT = i, p
			}
		}
	}
	verifrt.Assert((err == nil) == (accepted >= 0), "Decrypt accepts iff some ENABLED key accepts the input")
	ev = rec.Since(mark, "decrypt")
	if err == nil && accepted >= 0 {
		verifrt.AssertEq(got, wantPT, "plaintext of the accepting key")
		verifrt.Assert(len(ev) == 1 && !ev[0].Failure && ev[0].KeyID == ks.Keys[accepted].ID && ev[0].N == len(x), "decrypt success logged once, naming the key that decrypted")
		verifrt.Reach("accepted")
	} else {
		verifrt.Assert(got == nil, "no plaintext on error")
		verifrt.Assert(len(ev) == 1 && ev[0].Failure, "decrypt failure logged")
		verifrt.Reach("rejected")
	}
}

// A RAW key's genuine ciphertext decrypts even when its first five bytes happen to equal the
// output prefix of another ENABLED key of the keyset.
func VerifH_factory_aead_rawcollision() {
	rec := verifh.InstallMonitoring()
	ks := verifh.SymbolicKeyset(factoryMax(), []int{0, 1, 3}, true)
	raw, collides := verifh.RawCollisionSetup(ks)
	verifrt.Assume(raw >= 0)
	a, err := NewWithConfig(ks.Handle, stubConfig{})
	verifrt.Assert(err == nil, "NewWithConfig succeeds")
	pt := verifrt.Bytes("pt", verifrt.Choice("ptn", 2))
	ad := verifrt.Bytes("ad", 1)
	x, _ := (&idealAEAD{k: ks.Keys[raw], full: true}).Encrypt(pt, ad)
	mark := len(rec.Events)
	got, err := a.Decrypt(x, ad)
	verifrt.Assert(err == nil, "a RAW key's genuine ciphertext decrypts whatever its leading bytes are")
	verifrt.AssertEq(got, pt, "to the plaintext")
	ev := rec.Since(mark, "decrypt")
	verifrt.Assert(len(ev) == 1 && !ev[0].Failure && ev[0].KeyID == ks.Keys[raw].ID, "decrypt success logged once, naming the RAW key")
	if collides {
		verifrt.Reach("collision")
	}
	verifrt.Reach("end")
}
