package chacha20poly1305

import (
	tinkpb "github.com/tink-crypto/tink-go/v2/proto/tink_go_proto"
	xc "golang.org/x/crypto/chacha20poly1305"

	"github.com/tink-crypto/tink-go/v2/insecuresecretdataaccess"
	"github.com/tink-crypto/tink-go/v2/internal/verifh"
	"github.com/tink-crypto/tink-go/v2/internal/verifrt"
	"github.com/tink-crypto/tink-go/v2/internal/verifspec"
	"github.com/tink-crypto/tink-go/v2/secretdata"
)

func build() (a verifh.AEAD, keyBytes []byte, prefix []byte) {
	kind := verifrt.Choice("variant", 3)
	v := [...]Variant{VariantTink, VariantCrunchy, VariantNoPrefix}[kind]
	keyBytes = verifrt.Bytes("key", 32)
	id := verifrt.Uint32("id")
	pk := kind
	if kind == 2 {
		id = 0
		pk = 3
	}
	params, err := NewParameters(v)
	verifrt.Assert(err == nil, "NewParameters")
	k, err := NewKey(secretdata.NewBytesFromData(keyBytes, insecuresecretdataaccess.Token{}), id, params)
	verifrt.Assert(err == nil, "NewKey")
	p, err := newAEAD(k)
	verifrt.Assert(err == nil, "newAEAD")
	return p, keyBytes, verifspec.Prefix(pk, id)
}

func seal(key []byte) verifh.SealFn {
	return func(iv, pt, ad []byte) []byte {
		c, _ := xc.New(key)
		return c.Seal(append([]byte{}, iv...), iv, pt, ad)
	}
}

func VerifH_chacha20poly1305_aead() {
	a, key, prefix := build()
	verifh.CheckAEAD(a, prefix, 12, seal(key), 3, 2)
}

func VerifH_chacha20poly1305_reject() {
	a, _, _ := build()
	verifh.CheckAEADReject(a, 16)
}

func VerifH_chacha20poly1305_arbitrary() {
	a, _, prefix := build()
	verifh.CheckAEADArbitrary(a, len(prefix)+12+16+2, 16)
}

func VerifH_c19_chacha20poly1305() {
	a, _, _ := build()
	verifh.CheckAEADNoWrite(a)
}

func VerifH_serial_chacha20poly1305() {
	kind := verifrt.Choice("variant", 3)
	v := [...]Variant{VariantTink, VariantCrunchy, VariantNoPrefix}[kind]
	pk := kind
	id := verifrt.Uint32("id")
	if kind == 2 {
		id, pk = 0, 3
	}
	params, err := NewParameters(v)
	verifrt.Assert(err == nil, "NewParameters")
	k, err := NewKey(secretdata.NewBytesFromData(verifrt.Bytes("key", 32), insecuresecretdataaccess.Token{}), id, params)
	verifrt.Assert(err == nil, "NewKey")
	verifh.CheckKeyRoundTrip(k, &keySerializer{}, &keyParser{}, &parametersSerializer{}, &parametersParser{}, pk, id, typeURL, tinkpb.KeyData_SYMMETRIC)
}

func VerifH_c18_chacha20poly1305() {
	verifrt.EngineOnly()
	a, _, _ := build()
	verifh.CheckAEADShared(a)
}
