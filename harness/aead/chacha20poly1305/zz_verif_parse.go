package chacha20poly1305

import (
	"google.golang.org/protobuf/proto"

	"github.com/tink-crypto/tink-go/v2/insecuresecretdataaccess"
	"github.com/tink-crypto/tink-go/v2/internal/verifh"
	"github.com/tink-crypto/tink-go/v2/internal/verifrt"
	pb "github.com/tink-crypto/tink-go/v2/proto/chacha20_poly1305_go_proto"
	tinkpb "github.com/tink-crypto/tink-go/v2/proto/tink_go_proto"
)

// VerifH_parse_chacha20poly1305: keyParser.ParseKey on hostile field values.
//
// Documented validity of a ChaCha20-Poly1305 key coming from a keyset (ChaCha20Poly1305Key: version, key_value):
// version 0, key of 32 bytes, SYMMETRIC material, own type URL,
// prefix type TINK/CRUNCHY/LEGACY/RAW, RAW => id requirement 0.
func VerifH_parse_chacha20poly1305() {
	h := verifh.NewHostile()
	version := verifrt.Uint32("version")
	n := h.Len("keylen", 32, 0, 1, 15, 16, 17, 31, 33, 63, 64, 65)
	kv := verifrt.Bytes("key", n)
	var value []byte
	if h.Shape("emptyvalue", 2) == 1 {
		// KeyData.value empty: the all-defaults message
		version, kv, n = 0, nil, 0
	} else {
		var err error
		value, err = proto.Marshal(&pb.ChaCha20Poly1305Key{Version: version, KeyValue: kv})
		verifrt.Assert(err == nil, "marshal")
	}
	if !h.Wrap(typeURL, value) {
		return
	}
	k, err := (&keyParser{}).ParseKey(h.KS)
	valid := verifrt.And(h.EnvelopeValidKinds(tinkpb.KeyData_SYMMETRIC, 0b1111), verifrt.And(version == 0, n == 32))
	verifrt.Assert(verifrt.Implies(err == nil, valid), "accepted => version 0, key 32 bytes, SYMMETRIC, own type URL, supported prefix type, RAW => id 0")
	verifrt.Assert(verifrt.Implies(valid, err == nil), "every valid ChaCha20-Poly1305 key is accepted")
	if err != nil {
		verifrt.Reach("rejected")
		return
	}
	h.CheckParsedEnvelope(k)
	ak, ok := k.(*Key)
	verifrt.Assert(ok && ak != nil, "parsed key is *chacha20poly1305.Key")
	p := ak.Parameters().(*Parameters)
	verifrt.Assert(p.Variant() == [...]Variant{VariantTink, VariantCrunchy, VariantCrunchy, VariantNoPrefix}[h.Kind()], "variant mirrors the prefix type")
	verifrt.AssertEq(ak.KeyBytes().Data(insecuresecretdataaccess.Token{}), kv, "key bytes are key_value")
	verifrt.AssertEq(ak.OutputPrefix(), h.WantPrefix(), "output prefix of (prefix type, id)")
	verifrt.Reach("accepted")
}

// VerifH_parse_chacha20poly1305_params: parametersParser.Parse on a hostile key template (ChaCha20Poly1305KeyFormat: no fields).
func VerifH_parse_chacha20poly1305_params() {
	value, err := proto.Marshal(&pb.ChaCha20Poly1305KeyFormat{})
	verifrt.Assert(err == nil, "marshal")
	t, urlOK, prefix := verifh.HostileTemplate(typeURL, value)
	p, err := (&parametersParser{}).Parse(t)
	kind := verifh.KindOf(prefix)
	valid := verifrt.And(urlOK && kind >= 0, true)
	verifrt.Assert((err == nil) == valid, "template accepted <=> own type URL, (the format has no fields), supported prefix type")
	if err != nil {
		verifrt.Reach("rejected")
		return
	}
	ap := p.(*Parameters)
	verifrt.Assert(ap.Variant() == [...]Variant{VariantTink, VariantCrunchy, VariantCrunchy, VariantNoPrefix}[kind], "variant mirrors the prefix type")
	verifrt.Assert(ap.HasIDRequirement() == (kind != 3), "id requirement iff not RAW")
	_, nerr := (&parametersParser{}).Parse(nil)
	verifrt.Assert(nerr != nil, "nil template rejected, no panic")
	verifrt.Reach("accepted")
}
