package mldsa

import (
	"golang.org/x/crypto/sha3"

	"github.com/tink-crypto/tink-go/v2/insecuresecretdataaccess"
	"github.com/tink-crypto/tink-go/v2/internal/internalapi"
	internalmldsa "github.com/tink-crypto/tink-go/v2/internal/signature/mldsa"
	"github.com/tink-crypto/tink-go/v2/internal/verifrt"
	"github.com/tink-crypto/tink-go/v2/secretdata"
	tinkmldsa "github.com/tink-crypto/tink-go/v2/signature/mldsa"
)

// External-mu (prehash) path of ML-DSA keys: ComputePrehash(data) carries exactly the mu that
// the ordinary signer / verifier of the same key computes for data, SignPrehash signs that mu
// with the same secret key, and the signature it returns is what the key's ordinary verifier
// checks. The mu-level signer is an uninterpreted function of (key, mu, rnd), the mu-level
// verifier a recording stub, KeyGen_internal an uninterpreted function of the seed that keeps
// tr = H(pkEncode(pk), 64) (internal/signature/mldsa/zz_verif_mu.go).

var phInstances = [...]tinkmldsa.Instance{tinkmldsa.MLDSA44, tinkmldsa.MLDSA65, tinkmldsa.MLDSA87}
var phPkLen = [...]int{1312, 1952, 2592}

func shake256(n int, parts ...[]byte) []byte {
	var in []byte
	for _, p := range parts {
		in = append(in, p...)
	}
	out := make([]byte, n)
	sha3.ShakeSum256(out, in)
	return out
}

func be32(x uint32) []byte { return []byte{byte(x >> 24), byte(x >> 16), byte(x >> 8), byte(x)} }

// ComputePrehash: 0xFF || key id (big endian) || H(H(pk, 64) || 0 || 0 || data, 64), i.e. the mu
// of FIPS 204 Algorithm 2/3 for the empty context; and this is the mu the ordinary verifier of
// the same public key hands to Verify_internal.
func VerifH_prehash_mldsa_compute() {
	verifrt.EngineOnly()
	ii := verifrt.Choice("instance", 3)
	variant := [...]tinkmldsa.Variant{tinkmldsa.VariantNoPrefixWithPrehashID, tinkmldsa.VariantTink}[verifrt.Choice("variant", 2)]
	params, err := tinkmldsa.NewParameters(phInstances[ii], variant)
	verifrt.Assert(err == nil, "NewParameters")
	id := verifrt.Uint32("id")
	pkBytes := make([]byte, phPkLen[ii])
	copy(pkBytes, verifrt.Bytes("rho", 32))
	pkBytes[32] = verifrt.Byte("t1.first")
	pkBytes[len(pkBytes)-1] = verifrt.Byte("t1.last")
	pub, err := tinkmldsa.NewPublicKey(pkBytes, id, params)
	verifrt.Assert(err == nil, "NewPublicKey")

	rec := &internalmldsa.VerifMuRecord{}
	internalmldsa.VerifStubMuLevel(rec, 16)

	ph, err := NewPrehash(pub, internalapi.Token{})
	verifrt.Assert(err == nil, "NewPrehash accepts keys with an id requirement")
	data := verifrt.Bytes("data", verifrt.Choice("dl", 3))
	payload, err := ph.ComputePrehash(data)
	verifrt.Assert(err == nil && len(payload) == 69, "prehash is 1 + 4 + 64 bytes")
	verifrt.Assert(payload[0] == 0xff, "start byte 0xff")
	verifrt.AssertEq(payload[1:5], be32(id), "key id, big endian")
	tr := shake256(64, pkBytes)
	verifrt.AssertEq(payload[5:], shake256(64, tr, []byte{0, 0}, data), "mu == H(H(pk, 64) || 0 || 0 || data, 64)")

	// the ordinary verifier of the same key, on the same data
	v, err := tinkmldsa.NewVerifier(pub, internalapi.Token{})
	verifrt.Assert(err == nil, "NewVerifier")
	sig := verifrt.Bytes("sig", 8)
	prefix := pub.OutputPrefix()
	verifrt.Assert(v.Verify(append(append([]byte{}, prefix...), sig...), data) == nil, "stubbed verifier accepts")
	verifrt.Assert(len(rec.VerifyMu) == 1, "one mu-level verification")
	verifrt.AssertEq(rec.VerifyMu[0], payload[5:], "the ordinary verifier checks the mu that ComputePrehash returns")
	verifrt.AssertEq(rec.VerifyTr[0], tr, "under tr == H(pk, 64)")
	verifrt.AssertEq(rec.VerifySig[0], sig, "on the signature without the output prefix")

	// "hash the batch, sign later": a second prehash on the same primitive (other data) leaves
	// the first one as it was - each call returns its own memory
	first := append([]byte{}, payload...)
	data2 := verifrt.Bytes("data2", 1+verifrt.Choice("dl2", 2))
	payload2, err := ph.ComputePrehash(data2)
	verifrt.Assert(err == nil && len(payload2) == 69, "second prehash")
	verifrt.Assert(!verifrt.SameArray(payload, payload2), "each ComputePrehash returns fresh memory")
	verifrt.AssertEq(payload, first, "an earlier prehash is unaffected by a later ComputePrehash on the same primitive")
	verifrt.AssertEq(payload2[5:], shake256(64, tr, []byte{0, 0}, data2), "second mu")
	verifrt.AssertEq(payload2[:5], first[:5], "same header")
	verifrt.Reach("end")
}

func phPrivateKey(ii int, variant tinkmldsa.Variant, id uint32) (*tinkmldsa.PrivateKey, []byte) {
	params, err := tinkmldsa.NewParameters(phInstances[ii], variant)
	verifrt.Assert(err == nil, "NewParameters")
	seed := verifrt.Bytes("seed", 32)
	priv, err := tinkmldsa.NewPrivateKey(secretdata.NewBytesFromData(seed, insecuresecretdataaccess.Token{}), id, params)
	verifrt.Assert(err == nil, "NewPrivateKey")
	return priv, seed
}

// SignPrehash: accepts exactly 0xFF || own key id || mu (69 bytes) and signs that mu with the
// key generated from the seed, with fresh randomness; nothing else is signed.
func VerifH_prehash_mldsa_sign() {
	verifrt.EngineOnly()
	ii := verifrt.Choice("instance", 3)
	variant := [...]tinkmldsa.Variant{tinkmldsa.VariantNoPrefixWithPrehashID, tinkmldsa.VariantTink}[verifrt.Choice("variant", 2)]
	id := verifrt.Uint32("id")
	rec := &internalmldsa.VerifMuRecord{}
	internalmldsa.VerifStubMuLevel(rec, 16)
	internalmldsa.VerifStubKeyGen()
	priv, _ := phPrivateKey(ii, variant, id)
	s, err := NewPrehashSigner(priv, internalapi.Token{})
	verifrt.Assert(err == nil, "NewPrehashSigner accepts keys with an id requirement")
	n := [...]int{69, 68, 70, 64, 0}[verifrt.Choice("len", 5)]
	p := verifrt.Bytes("prehash", n)
	d0 := verifrt.Draws()
	sig, err := s.SignPrehash(p)
	wellFormed := n == 69
	if n == 69 {
		wellFormed = verifrt.And(p[0] == 0xff, verifrt.EqBytes(p[1:5], be32(id)))
	}
	verifrt.Assert((err == nil) == wellFormed, "SignPrehash accepts iff 69 bytes, start byte 0xff, own key id")
	if err != nil {
		verifrt.Assert(len(rec.SignMu) == 0 && sig == nil, "nothing is signed on a malformed prehash")
		verifrt.Reach("refused")
		return
	}
	pubKey, _ := priv.PublicKey()
	pkBytes := pubKey.(*tinkmldsa.PublicKey).KeyBytes()
	verifrt.Assert(len(rec.SignMu) == 1 && verifrt.Draws() == d0+1, "one mu-level signature, one draw")
	verifrt.AssertEq(rec.SignMu[0], p[5:], "the signed mu is the one carried by the prehash")
	verifrt.AssertEq(rec.SignTr[0], shake256(64, pkBytes), "signed with the key whose tr == H(pk, 64) of the key's public key")
	verifrt.AssertEq(rec.SignRnd[0], verifrt.DrawBytes(d0), "hedged: rnd is the fresh draw")
	verifrt.AssertEq(sig, rec.SignOut[0], "the raw ML-DSA signature is returned")
	verifrt.Reach("signed")
}

// End to end for keys of variant NO_PREFIX_WITH_PREHASH_ID: SignPrehash(ComputePrehash(data))
// is checked by the key's ordinary verifier against the same mu, the same tr and the same
// signature bytes as the signer produced; so is the ordinary signer's signature. With the
// mu-level property (a signature made for (sk, mu) verifies for (pk, mu)) this is "prehash
// signatures verify under the key's ordinary verifier".
func phEndToEnd(variant tinkmldsa.Variant) {
	verifrt.EngineOnly()
	ii := verifrt.Choice("instance", 3)
	id := verifrt.Uint32("id")
	rec := &internalmldsa.VerifMuRecord{}
	internalmldsa.VerifStubMuLevel(rec, 16)
	internalmldsa.VerifStubKeyGen()
	priv, _ := phPrivateKey(ii, variant, id)
	pubKey, err := priv.PublicKey()
	verifrt.Assert(err == nil, "PublicKey")
	pub := pubKey.(*tinkmldsa.PublicKey)
	ph, err := NewPrehash(pub, internalapi.Token{})
	verifrt.Assert(err == nil, "NewPrehash")
	signer, err := NewPrehashSigner(priv, internalapi.Token{})
	verifrt.Assert(err == nil, "NewPrehashSigner")
	verifier, err := tinkmldsa.NewVerifier(pub, internalapi.Token{})
	verifrt.Assert(err == nil, "NewVerifier")
	std, err := tinkmldsa.NewSigner(priv, internalapi.Token{})
	verifrt.Assert(err == nil, "NewSigner")

	data := verifrt.Bytes("data", verifrt.Choice("dl", 3))
	payload, err := ph.ComputePrehash(data)
	verifrt.Assert(err == nil, "ComputePrehash")
	sig, err := signer.SignPrehash(payload)
	verifrt.Assert(err == nil, "SignPrehash accepts the prehash computed for the same key")
	stdSig, err := std.Sign(data)
	verifrt.Assert(err == nil, "Sign")
	verifrt.Assert(len(rec.SignMu) == 2, "two mu-level signatures")
	verifrt.AssertEq(rec.SignMu[0], rec.SignMu[1], "prehash path and ordinary signer sign the same mu")
	verifrt.AssertEq(rec.SignTr[0], rec.SignTr[1], "with the same key (tr)")

	// EXTERNAL_MU keys have an empty output prefix. For TINK keys SignPrehash returns the raw
	// ML-DSA signature as well (no output prefix is added - see the report), so what the key's
	// ordinary verifier accepts is OutputPrefix || sig.
	prefix := pub.OutputPrefix()
	verifrt.Assert((len(prefix) == 0) == (variant == tinkmldsa.VariantNoPrefixWithPrehashID), "EXTERNAL_MU keys have no output prefix, TINK keys have one")
	e1 := verifier.Verify(append(append([]byte{}, prefix...), sig...), data)
	verifrt.Assert(e1 == nil, "the ordinary verifier hands the prehash-path signature to ML-DSA.Verify")
	if e1 == nil {
		verifrt.AssertEq(rec.VerifyMu[0], rec.SignMu[0], "verified mu == signed mu")
		verifrt.AssertEq(rec.VerifyTr[0], rec.SignTr[0], "verifier's tr == signer's tr")
		verifrt.AssertEq(rec.VerifySig[0], rec.SignOut[0], "verified bytes == signature bytes")
	}
	e2 := verifier.Verify(stdSig, data)
	verifrt.Assert(e2 == nil, "the ordinary verifier accepts the ordinary signer's signature")
	if e1 == nil && e2 == nil {
		verifrt.AssertEq(rec.VerifyMu[1], rec.SignMu[1], "verified mu == signed mu (ordinary signer)")
		verifrt.AssertEq(rec.VerifySig[1], rec.SignOut[1], "verified bytes == signature bytes (ordinary signer)")
	}
	if len(prefix) > 0 {
		n := len(rec.VerifyMu)
		e3 := verifier.Verify(sig, data)
		verifrt.Assert((e3 == nil) == verifrt.EqBytes(sig[:len(prefix)], prefix), "TINK keys: the bare prehash-path signature passes the prefix check only if it starts with the prefix")
		if e3 == nil {
			verifrt.Assert(len(rec.VerifyMu) == n+1 && len(rec.VerifySig[n]) == len(sig)-len(prefix), "... and is then verified with its first bytes cut off")
		}
	}
	verifrt.Reach("end")
}

func VerifH_prehash_mldsa_endtoend() { phEndToEnd(tinkmldsa.VariantNoPrefixWithPrehashID) }

// Keys of variant TINK, which NewPrehashSigner also admits: the same statement with the
// output prefix prepended by the caller (SignPrehash does not add it; the bare signature is
// rejected by the key's ordinary verifier unless it happens to start with the prefix).
func VerifH_prehash_mldsa_endtoend_tink() { phEndToEnd(tinkmldsa.VariantTink) }

// Keys without an id requirement are refused by both constructors.
func VerifH_prehash_mldsa_noprefix() {
	verifrt.EngineOnly()
	ii := verifrt.Choice("instance", 3)
	internalmldsa.VerifStubKeyGen()
	priv, _ := phPrivateKey(ii, tinkmldsa.VariantNoPrefix, 0)
	_, err := NewPrehashSigner(priv, internalapi.Token{})
	verifrt.Assert(err != nil, "NewPrehashSigner refuses NO_PREFIX keys")
	pubKey, _ := priv.PublicKey()
	_, err = NewPrehash(pubKey.(*tinkmldsa.PublicKey), internalapi.Token{})
	verifrt.Assert(err != nil, "NewPrehash refuses NO_PREFIX keys")
	verifrt.Reach("end")
}
