package keyset

import (
	"errors"

	"github.com/tink-crypto/tink-go/v2/internal/protoserialization"
	"github.com/tink-crypto/tink-go/v2/key"
	"github.com/tink-crypto/tink-go/v2/internal/verifrt"
	tinkpb "github.com/tink-crypto/tink-go/v2/proto/tink_go_proto"
)

var knames = [...]string{"k0", "k1", "k2", "k3"}

// arbitraryKeyset builds a Keyset message with n entries whose every field is arbitrary:
// nil entries, nil KeyData, any int32 status / prefix type / material type, any ids.
func arbitraryKeyset(n int) *tinkpb.Keyset {
	ks := &tinkpb.Keyset{PrimaryKeyId: verifrt.Uint32("primary")}
	for i := 0; i < n; i++ {
		shape := verifrt.Choice(knames[i]+".shape", 3)
		if shape == 0 {
			ks.Key = append(ks.Key, nil)
			continue
		}
		k := &tinkpb.Keyset_Key{
			KeyId:            verifrt.Uint32(knames[i] + ".id"),
			Status:           tinkpb.KeyStatusType(verifrt.Int32(knames[i] + ".status")),
			OutputPrefixType: tinkpb.OutputPrefixType(verifrt.Int32(knames[i] + ".prefix")),
		}
		if shape == 2 {
			k.KeyData = &tinkpb.KeyData{TypeUrl: "type.googleapis.com/stub", KeyMaterialType: tinkpb.KeyData_KeyMaterialType(verifrt.Int32(knames[i] + ".material"))}
		}
		ks.Key = append(ks.Key, k)
	}
	return ks
}

func b2iv(b bool) int {
	x := 0
	if b {
		x = 1
	}
	return x
}

// specValid is the documented well-formedness predicate.
func specValid(ks *tinkpb.Keyset) bool {
	if len(ks.Key) == 0 {
		return false
	}
	ok := true
	nprim := 0
	for i, k := range ks.Key {
		if k == nil || k.KeyData == nil {
			return false
		}
		p := k.OutputPrefixType
		// the five declared prefix types (WITH_ID_REQUIREMENT is what ML-DSA keys of variant
		// NO_PREFIX_WITH_PREHASH_ID serialize to: a keyset the library writes must read back, C12)
		ok = verifrt.And(ok, p == tinkpb.OutputPrefixType_TINK || p == tinkpb.OutputPrefixType_LEGACY || p == tinkpb.OutputPrefixType_RAW || p == tinkpb.OutputPrefixType_CRUNCHY || p == tinkpb.OutputPrefixType_WITH_ID_REQUIREMENT)
		s := k.Status
		ok = verifrt.And(ok, s == tinkpb.KeyStatusType_ENABLED || s == tinkpb.KeyStatusType_DISABLED || s == tinkpb.KeyStatusType_DESTROYED)
		for j := 0; j < i; j++ {
			ok = verifrt.And(ok, ks.Key[j].KeyId != k.KeyId)
		}
		isPrim := k.KeyId == ks.PrimaryKeyId
		ok = verifrt.And(ok, verifrt.Implies(isPrim, s == tinkpb.KeyStatusType_ENABLED))
		nprim += b2iv(isPrim)
	}
	return verifrt.And(ok, nprim == 1)
}

func valMax() int {
	// 4 keys need several million paths (every key forks on nil / enum ranges): 3 in both tiers
	return 3
}

// Validate accepts exactly the well-formed keysets and never panics.
func VerifH_validate() {
	n := verifrt.Choice("n", valMax()+1)
	ks := arbitraryKeyset(n)
	err := Validate(ks)
	verifrt.Assert((err == nil) == specValid(ks), "Validate accepts exactly: non-empty, all keys with key data, declared enum values (5 prefix types, 3 statuses), distinct ids, exactly one key with the primary id and it is ENABLED")
	verifrt.Assert(Validate(nil) != nil, "nil keyset rejected")
	verifrt.Reach("end")
}

// hasSecrets / NewHandleWithNoSecrets classify by material type, at every position.
func VerifH_hassecrets() {
	n := 1 + verifrt.Choice("n", 3)
	ks := &tinkpb.Keyset{PrimaryKeyId: verifrt.Uint32("primary")}
	secret := false
	for i := 0; i < n; i++ {
		mt := tinkpb.KeyData_KeyMaterialType(verifrt.Int32(knames[i] + ".material"))
		// any int32: proto3 enums are open, so a parsed keyset can carry values outside 0..4.
		// The classifier is a deny-list over the three named values: unrecognised numbers count
		// as "not secret" (observation in DESIGN section 6; the per-type parsers of registered
		// key types refuse such labels, fallback keys do not).
		// every other attribute of the key is arbitrary: the classification must depend on the material type only
		ks.Key = append(ks.Key, &tinkpb.Keyset_Key{
			KeyData:          &tinkpb.KeyData{KeyMaterialType: mt, TypeUrl: "type.googleapis.com/stub"},
			Status:           tinkpb.KeyStatusType(verifrt.Int32(knames[i] + ".status")),
			OutputPrefixType: tinkpb.OutputPrefixType(verifrt.Int32(knames[i] + ".prefix")),
			KeyId:            verifrt.Uint32(knames[i] + ".id"),
		})
		secret = verifrt.Or(secret, mt == tinkpb.KeyData_UNKNOWN_KEYMATERIAL || mt == tinkpb.KeyData_SYMMETRIC || mt == tinkpb.KeyData_ASYMMETRIC_PRIVATE)
	}
	verifrt.Assert(hasSecrets(ks) == secret, "hasSecrets <=> some key is UNKNOWN, SYMMETRIC or ASYMMETRIC_PRIVATE (any position, any status)")
	// key parsing (registry) is replaced by a stub that accepts every key
	verifrt.Summarize("internal/protoserialization.ParseKey", func(s *protoserialization.KeySerialization) (key.Key, error) {
		return &stubKey{}, nil
	})
	h, err := NewHandleWithNoSecrets(ks)
	verifrt.Assert((err == nil) == verifrt.And(verifrt.Not(secret), specValid(ks)), "NewHandleWithNoSecrets succeeds iff the keyset is well-formed and has no secret material")
	if err == nil {
		verifrt.Assert(h.Len() == n, "handle has every key")
	}
	verifrt.Reach("end")
}

// A key that fails to parse makes handle construction fail - whatever its status and
// position (a DISABLED or DESTROYED key is not a reason to keep unparsed bytes in a handle:
// the per-type parsers are the second guard behind hasSecrets, C13 / C14).
func VerifH_keyset_parse_errors_propagate() {
	n := 1 + verifrt.Choice("n", 2) // two keys: every (status, prefix type, id, failing position) combination
	failAt := verifrt.Choice("fail", n+1) // n: every key parses
	ks := &tinkpb.Keyset{PrimaryKeyId: verifrt.Uint32("primary")}
	for i := 0; i < n; i++ {
		mt := [...]tinkpb.KeyData_KeyMaterialType{tinkpb.KeyData_ASYMMETRIC_PUBLIC, tinkpb.KeyData_REMOTE}[verifrt.Choice(knames[i]+".material", 2)]
		ks.Key = append(ks.Key, &tinkpb.Keyset_Key{
			KeyData:          &tinkpb.KeyData{KeyMaterialType: mt, TypeUrl: "type.googleapis.com/stub", Value: []byte{byte(i)}},
			Status:           tinkpb.KeyStatusType(verifrt.Int32(knames[i] + ".status")),
			OutputPrefixType: [...]tinkpb.OutputPrefixType{tinkpb.OutputPrefixType_TINK, tinkpb.OutputPrefixType_RAW}[verifrt.Choice(knames[i]+".prefix", 2)],
			KeyId:            verifrt.Uint32(knames[i] + ".id"),
		})
	}
	verifrt.Summarize("internal/protoserialization.ParseKey", func(s *protoserialization.KeySerialization) (key.Key, error) {
		if int(s.KeyData().GetValue()[0]) == failAt {
			return nil, errStubParse
		}
		id, req := s.IDRequirement()
		return &stubKey{id: id, req: req, tag: int(s.KeyData().GetValue()[0])}, nil
	})
	valid := specValid(ks)
	h, err := NewHandleWithNoSecrets(ks)
	verifrt.Assert((err == nil) == verifrt.And(valid, failAt == n), "NewHandleWithNoSecrets succeeds iff the keyset is well-formed and EVERY key parses")
	if err == nil {
		verifrt.Assert(h.Len() == n, "handle has every key")
		for i := 0; i < n; i++ {
			e, _ := h.Entry(i)
			sk, ok := e.Key().(*stubKey)
			verifrt.Assert(ok && sk.tag == i, "every entry holds the key its parser returned, in order")
		}
		verifrt.Reach("accepted")
	}
	h2, err2 := ReadWithNoSecrets(&MemReaderWriter{Keyset: ks})
	verifrt.Assert((err2 == nil) == (err == nil) && (h2 == nil) == (h == nil), "ReadWithNoSecrets decides the same")
	verifrt.Reach("end")
}

var errStubParse = errors.New("stub parser: malformed key")
