package keyset

import (
	"bytes"
	"context"
	"errors"

	"google.golang.org/protobuf/proto"

	"github.com/tink-crypto/tink-go/v2/internal/protoserialization"
	"github.com/tink-crypto/tink-go/v2/internal/verifrt"
	"github.com/tink-crypto/tink-go/v2/key"
	tinkpb "github.com/tink-crypto/tink-go/v2/proto/tink_go_proto"
)

func stubKeySerialization() {
	verifrt.Summarize("internal/protoserialization.SerializeKey", func(k key.Key) (*protoserialization.KeySerialization, error) {
		sk := k.(*stubKey)
		pt := tinkpb.OutputPrefixType_RAW
		if sk.req {
			pt = tinkpb.OutputPrefixType_TINK
			if stubPrehashIDPrefix && sk.tag%2 == 1 {
				// as ML-DSA keys of variant NO_PREFIX_WITH_PREHASH_ID serialize
				pt = tinkpb.OutputPrefixType_WITH_ID_REQUIREMENT
			}
		}
		return protoserialization.NewKeySerialization(&tinkpb.KeyData{TypeUrl: "type.googleapis.com/stub", Value: []byte{byte(sk.tag)}, KeyMaterialType: tinkpb.KeyData_SYMMETRIC}, pt, sk.id)
	})
	verifrt.Summarize("internal/protoserialization.ParseKey", func(s *protoserialization.KeySerialization) (key.Key, error) {
		id, req := s.IDRequirement()
		return &stubKey{id: id, req: req, tag: int(s.KeyData().GetValue()[0])}, nil
	})
}

// stubPrehashIDPrefix: keys with an odd tag and an id requirement serialize with the prefix
// type WITH_ID_REQUIREMENT.
var stubPrehashIDPrefix = false

// entries -> Keyset proto -> entries preserves keys, ids, statuses, the primary and the order.
func VerifH_keyset_proto_roundtrip() {
	verifrt.NativeSkip("key (de)serialization is summarised")
	stubPrehashIDPrefix = verifrt.Choice("prehashid", 2) == 1
	stubKeySerialization()
	n := 1 + verifrt.Choice("n", 3)
	m := arbitraryManager(n)
	h, err := m.Handle()
	if err != nil {
		verifrt.Reach("noprimary")
		return
	}
	ks, err := entriesToProtoKeyset(h.entries, false)
	verifrt.Assert(err == nil, "entriesToProtoKeyset succeeds")
	verifrt.Assert(len(ks.GetKey()) == n, "one proto key per entry")
	for i, e := range h.entries {
		pk := ks.GetKey()[i]
		verifrt.Assert(pk.GetKeyId() == e.keyID, "proto key id")
		verifrt.Assert(verifrt.Implies(e.isPrimary, ks.GetPrimaryKeyId() == e.keyID), "primary key id recorded")
		want := tinkpb.KeyStatusType(e.status) // Enabled=1, Disabled=2, Destroyed=3 in both enums
		verifrt.Assert(pk.GetStatus() == want, "status mapped to the proto enum")
	}
	back, err := keysetToEntries(ks)
	verifrt.Assert(err == nil, "keysetToEntries accepts its own output")
	verifrt.Assert(len(back) == n, "same number of entries")
	for i := 0; i < n && i < len(back); i++ {
		a, b := h.entries[i], back[i]
		verifrt.Assert(a.keyID == b.keyID && a.status == b.status && a.isPrimary == b.isPrimary, "entry id / status / primary preserved, in order")
		verifrt.Assert(a.key.Equal(b.key), "key Equal after the round trip")
	}
	verifrt.Reach("end")
}

// ---- encrypted keysets

// idealKEK is an ideal key-encryption AEAD: Decrypt accepts exactly the (ciphertext,
// associated data) pairs that Encrypt of the SAME key produced; ciphertext = tag || plaintext
// so that the (modelled) protobuf bytes survive.
type idealKEK struct {
	id  byte
	log *[]kekRec
}

type kekRec struct {
	id     byte
	ad, ct []byte
}

func (k idealKEK) Encrypt(pt, ad []byte) ([]byte, error) {
	ct := append([]byte{0xE0, k.id, byte(len(*k.log))}, pt...)
	*k.log = append(*k.log, kekRec{k.id, append([]byte{}, ad...), append([]byte{}, ct...)})
	return ct, nil
}

func (k idealKEK) Decrypt(ct, ad []byte) ([]byte, error) {
	for _, r := range *k.log {
		if r.id == k.id && verifrt.EqBytes(r.ct, ct) && verifrt.EqBytes(r.ad, ad) {
			return append([]byte{}, ct[3:]...), nil
		}
	}
	return nil, errKEK
}

func (k idealKEK) EncryptWithContext(_ context.Context, pt, ad []byte) ([]byte, error) {
	return k.Encrypt(pt, ad)
}
func (k idealKEK) DecryptWithContext(_ context.Context, ct, ad []byte) ([]byte, error) {
	return k.Decrypt(ct, ad)
}

var errKEK = errors.New("ideal kek: decryption failed")

// getKeysetInfoForTest rebuilds the metadata the Mem writer would have carried, so that the
// metadata assertions below apply to both writers.
func getKeysetInfoForTest(h *Handle) *tinkpb.KeysetInfo {
	ks, _ := entriesToProtoKeyset(h.entries, false)
	return getKeysetInfo(ks)
}

// An encrypted keyset written with (key-encryption key, associated data) reads back - only
// with the same key and the same associated data - as a handle with the same keys, ids,
// statuses, primary and order; the cleartext part of the written form is metadata only
// (type URL, status, id, prefix type per key, primary id). Both API generations.
func VerifH_keyset_encrypted_io() {
	verifrt.NativeSkip("key (de)serialization is summarised")
	stubKeySerialization()
	n := 1 + verifrt.Choice("n", 2)
	m := arbitraryManager(n)
	h, err := m.Handle()
	if err != nil {
		verifrt.Reach("noprimary")
		return
	}
	var log []kekRec
	kek, other := idealKEK{1, &log}, idealKEK{2, &log}
	ad := verifrt.Bytes("ad", verifrt.Choice("adn", 2))
	mem := &MemReaderWriter{}
	var buf bytes.Buffer
	binaryIO := verifrt.Choice("io", 2) == 1
	var w Writer = mem
	if binaryIO {
		w = NewBinaryWriter(&buf)
	}
	ctxAPI := verifrt.Choice("api", 2) == 1
	if ctxAPI {
		err = h.WriteWithContext(context.Background(), w, kek, ad)
	} else {
		err = h.WriteWithAssociatedData(w, kek, ad)
	}
	verifrt.Assert(err == nil, "writing the encrypted keyset succeeds")
	if binaryIO {
		// the binary writer drops the (redundant) keyset info: what is on the wire is the
		// encrypted payload only
		onWire := &tinkpb.EncryptedKeyset{}
		verifrt.Assert(proto.Unmarshal(buf.Bytes(), onWire) == nil, "the binary form parses as an EncryptedKeyset")
		verifrt.Assert(onWire.GetKeysetInfo() == nil, "binary writer: no keyset info on the wire")
		verifrt.Assert(len(log) == 1 && verifrt.EqBytes(onWire.GetEncryptedKeyset(), log[0].ct), "binary writer: the payload is the key-encryption AEAD's ciphertext")
		mem.EncryptedKeyset = &tinkpb.EncryptedKeyset{EncryptedKeyset: onWire.GetEncryptedKeyset(), KeysetInfo: getKeysetInfoForTest(h)}
	}
	verifrt.Assert(mem.Keyset == nil && mem.EncryptedKeyset != nil, "only the encrypted form is written")
	// the cleartext metadata
	info := mem.EncryptedKeyset.GetKeysetInfo()
	verifrt.Assert(len(info.GetKeyInfo()) == n, "one KeyInfo per key")
	for i, e := range h.entries {
		ki := info.GetKeyInfo()[i]
		verifrt.Assert(ki.GetKeyId() == e.keyID && ki.GetStatus() == tinkpb.KeyStatusType(e.status) && ki.GetTypeUrl() == "type.googleapis.com/stub", "KeyInfo mirrors id, status and type URL")
		sk := e.key.(*stubKey)
		wantPT := tinkpb.OutputPrefixType_RAW
		if sk.req {
			wantPT = tinkpb.OutputPrefixType_TINK
		}
		verifrt.Assert(ki.GetOutputPrefixType() == wantPT, "KeyInfo mirrors the prefix type")
		verifrt.Assert(verifrt.Implies(e.isPrimary, info.GetPrimaryKeyId() == e.keyID), "KeysetInfo names the primary")
	}
	// what was encrypted is the serialized keyset, under the given associated data
	verifrt.Assert(len(log) == 1 && verifrt.EqBytes(log[0].ad, ad), "exactly one encryption, with the caller's associated data")
	ks, _ := entriesToProtoKeyset(h.entries, false)
	want, _ := proto.Marshal(ks)
	verifrt.AssertEq(log[0].ct[3:], want, "the encrypted payload is the serialized keyset")

	read := func(k idealKEK, a []byte) (*Handle, error) {
		var r Reader = mem
		if binaryIO {
			r = NewBinaryReader(bytes.NewReader(buf.Bytes()))
		}
		if ctxAPI {
			return ReadWithContext(context.Background(), r, k, a)
		}
		return ReadWithAssociatedData(r, k, a)
	}
	switch verifrt.Choice("case", 3) {
	case 0:
		back, err := read(kek, ad)
		verifrt.Assert(err == nil, "reading with the same key and associated data succeeds")
		verifrt.Assert(back.Len() == n, "same number of keys")
		for i := 0; i < n && i < back.Len(); i++ {
			a, b := h.entries[i], back.entries[i]
			verifrt.Assert(a.keyID == b.keyID && a.status == b.status && a.isPrimary == b.isPrimary && a.key.Equal(b.key), "same key, id, status and primary, in order")
		}
	case 1:
		ad2 := verifrt.Bytes("ad2", verifrt.Choice("ad2n", 2))
		verifrt.Assume(!verifrt.EqBytes(ad2, ad))
		_, err := read(kek, ad2)
		verifrt.Assert(err != nil, "other associated data: rejected")
	default:
		_, err := read(other, ad)
		verifrt.Assert(err != nil, "another key-encryption key: rejected")
	}
	verifrt.Reach("end")
}

// WriteWithNoSecrets succeeds exactly for keysets without UNKNOWN / SYMMETRIC /
// ASYMMETRIC_PRIVATE key material (any position), writes the cleartext keyset then, and
// writes nothing otherwise; ReadWithNoSecrets applies the same rule on the way in.
func VerifH_nosecrets_io() {
	verifrt.NativeSkip("key (de)serialization is summarised")
	n := 1 + verifrt.Choice("n", 2)
	var mats [4]tinkpb.KeyData_KeyMaterialType
	secret := false
	for i := 0; i < n; i++ {
		mats[i] = tinkpb.KeyData_KeyMaterialType(verifrt.Choice([...]string{"m0", "m1", "m2"}[i], 5))
		secret = secret || mats[i] == tinkpb.KeyData_UNKNOWN_KEYMATERIAL || mats[i] == tinkpb.KeyData_SYMMETRIC || mats[i] == tinkpb.KeyData_ASYMMETRIC_PRIVATE
	}
	verifrt.Summarize("internal/protoserialization.SerializeKey", func(k key.Key) (*protoserialization.KeySerialization, error) {
		sk := k.(*stubKey)
		pt := tinkpb.OutputPrefixType_RAW
		if sk.req {
			pt = tinkpb.OutputPrefixType_TINK
		}
		return protoserialization.NewKeySerialization(&tinkpb.KeyData{TypeUrl: "type.googleapis.com/stub", Value: []byte{byte(sk.tag)}, KeyMaterialType: mats[sk.tag]}, pt, sk.id)
	})
	verifrt.Summarize("internal/protoserialization.ParseKey", func(s *protoserialization.KeySerialization) (key.Key, error) {
		id, req := s.IDRequirement()
		return &stubKey{id: id, req: req, tag: int(s.KeyData().GetValue()[0])}, nil
	})
	m := arbitraryManager(n)
	h, err := m.Handle()
	if err != nil {
		verifrt.Reach("noprimary")
		return
	}
	mem := &MemReaderWriter{}
	err = h.WriteWithNoSecrets(mem)
	verifrt.Assert((err == nil) == !secret, "WriteWithNoSecrets succeeds iff no key has UNKNOWN, SYMMETRIC or ASYMMETRIC_PRIVATE material")
	if err != nil {
		verifrt.Assert(mem.Keyset == nil && mem.EncryptedKeyset == nil, "nothing is written on refusal")
		// the same keyset offered to the reader is refused as well
		ks, _ := entriesToProtoKeyset(h.entries, false)
		_, err := ReadWithNoSecrets(&MemReaderWriter{Keyset: ks})
		verifrt.Assert(err != nil, "ReadWithNoSecrets refuses a keyset with secret material")
		verifrt.Reach("refused")
		return
	}
	verifrt.Assert(mem.Keyset != nil && len(mem.Keyset.GetKey()) == n, "the cleartext keyset is written")
	back, err := ReadWithNoSecrets(mem)
	verifrt.Assert(err == nil && back.Len() == n, "ReadWithNoSecrets accepts what WriteWithNoSecrets wrote")
	for i := 0; i < n && i < back.Len(); i++ {
		a, b := h.entries[i], back.entries[i]
		verifrt.Assert(a.keyID == b.keyID && a.status == b.status && a.isPrimary == b.isPrimary && a.key.Equal(b.key), "same key, id, status and primary, in order")
	}
	verifrt.Reach("end")
}
