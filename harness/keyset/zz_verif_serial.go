package keyset

import (
	"github.com/tink-crypto/tink-go/v2/internal/protoserialization"
	"github.com/tink-crypto/tink-go/v2/internal/verifrt"
	"github.com/tink-crypto/tink-go/v2/key"
	tinkpb "github.com/tink-crypto/tink-go/v2/proto/tink_go_proto"
)

func stubKeySerialization() {
	verifrt.Summarize("internal/protoserialization.SerializeKey", func(k key.Key) (*protoserialization.KeySerialization, error) {
		sk := k.(*stubKey)
		pt := tinkpb.OutputPrefixType_RAW
		if sk.req {
			pt = tinkpb.OutputPrefixType_TINK
		}
		return protoserialization.NewKeySerialization(&tinkpb.KeyData{TypeUrl: "type.googleapis.com/stub", Value: []byte{byte(sk.tag)}, KeyMaterialType: tinkpb.KeyData_SYMMETRIC}, pt, sk.id)
	})
	verifrt.Summarize("internal/protoserialization.ParseKey", func(s *protoserialization.KeySerialization) (key.Key, error) {
		id, req := s.IDRequirement()
		return &stubKey{id: id, req: req, tag: int(s.KeyData().GetValue()[0])}, nil
	})
}

// entries -> Keyset proto -> entries preserves keys, ids, statuses, the primary and the order.
func VerifH_keyset_proto_roundtrip() {
	verifrt.NativeSkip("key (de)serialization is summarised")
	stubKeySerialization()
	n := 1 + verifrt.Choice("n", 3)
	m := arbitraryManager(n)
	h, err := m.Handle()
	if err != nil {
		verifrt.Reach("noprimary")
		return
	}
	ks, err := entriesToProtoKeyset(h.entries, false)
	verifrt.Assert(err == nil, "entriesToProtoKeyset succeeds")
	verifrt.Assert(len(ks.GetKey()) == n, "one proto key per entry")
	for i, e := range h.entries {
		pk := ks.GetKey()[i]
		verifrt.Assert(pk.GetKeyId() == e.keyID, "proto key id")
		verifrt.Assert(verifrt.Implies(e.isPrimary, ks.GetPrimaryKeyId() == e.keyID), "primary key id recorded")
		want := tinkpb.KeyStatusType(e.status) // Enabled=1, Disabled=2, Destroyed=3 in both enums
		verifrt.Assert(pk.GetStatus() == want, "status mapped to the proto enum")
	}
	back, err := keysetToEntries(ks)
	verifrt.Assert(err == nil, "keysetToEntries accepts its own output")
	verifrt.Assert(len(back) == n, "same number of entries")
	for i := 0; i < n && i < len(back); i++ {
		a, b := h.entries[i], back[i]
		verifrt.Assert(a.keyID == b.keyID && a.status == b.status && a.isPrimary == b.isPrimary, "entry id / status / primary preserved, in order")
		verifrt.Assert(a.key.Equal(b.key), "key Equal after the round trip")
	}
	verifrt.Reach("end")
}
