package keyset

import (
	"errors"

	"github.com/tink-crypto/tink-go/v2/internal/protoserialization"
	"github.com/tink-crypto/tink-go/v2/internal/verifrt"
	"github.com/tink-crypto/tink-go/v2/key"
	tinkpb "github.com/tink-crypto/tink-go/v2/proto/tink_go_proto"
)

// ---- Handle.KeysetInfo / Len / Entry / Primary (C13: what a handle shows without any
// secret-key access token is metadata only, and exactly the entries' metadata)

var infoURLs = [...]string{"type.googleapis.com/stub.A", "type.googleapis.com/stub.B", ""}

// stubInfoSerialization serializes stubKey with a type URL / prefix type chosen by the key's
// tag, and a key value that must never show up in the metadata.
func stubInfoSerialization(urlOf, ptOf [4]int) {
	verifrt.Summarize("internal/protoserialization.SerializeKey", func(k key.Key) (*protoserialization.KeySerialization, error) {
		sk := k.(*stubKey)
		return protoserialization.NewKeySerialization(&tinkpb.KeyData{TypeUrl: infoURLs[urlOf[sk.tag]], Value: []byte{0x5e, 0xc7, byte(sk.tag)}, KeyMaterialType: tinkpb.KeyData_SYMMETRIC}, tinkpb.OutputPrefixType(ptOf[sk.tag]), sk.id)
	})
}

func VerifH_handle_keysetinfo() {
	verifrt.NativeSkip("key serialization is summarised")
	n := 1 + verifrt.Choice("n", mgrMax()-1) // 2 keys (3 thorough): 18 (status, prefix, id requirement) cases per key
	var urlOf, ptOf [4]int
	names := [...]string{"e0", "e1", "e2", "e3"}
	rot := verifrt.Choice("rot", len(infoURLs))
	type ent struct {
		fixedID   uint32
		status    KeyStatus
		isPrimary bool
	}
	var m struct{ entries []ent }
	var entries []*Entry
	nprim0 := 0
	for i := 0; i < n; i++ {
		id := verifrt.Uint32(names[i] + ".id")
		st := statusOf(names[i] + ".status")
		prim := verifrt.Bool(names[i] + ".primary")
		req := verifrt.Bool(names[i] + ".req")
		verifrt.Assume(verifrt.Implies(prim, st == Enabled))
		nprim0 += b2i(prim)
		kid := uint32(0)
		urlOf[i] = (i + rot) % len(infoURLs)
		if req {
			kid = id
			ptOf[i] = verifrt.Int(names[i] + ".pt") // TINK, LEGACY, CRUNCHY
			verifrt.Assume(ptOf[i] == 1 || ptOf[i] == 2 || ptOf[i] == 4)
		} else {
			ptOf[i] = 3 // RAW
		}
		m.entries = append(m.entries, ent{id, st, prim})
		entries = append(entries, newUnmonitoredEntry(&stubKey{id: kid, req: req, tag: i}, prim, id, st))
	}
	verifrt.Assume(nprim0 == 1)
	stubInfoSerialization(urlOf, ptOf)
	h, err := newFromEntries(entries)
	verifrt.Assert(err == nil && h != nil, "handle from well-formed entries")
	verifrt.Assert(h.Len() == n, "Len() is the number of entries")
	info := h.KeysetInfo()
	verifrt.Assert(info != nil && len(info.GetKeyInfo()) == n, "KeysetInfo: one KeyInfo per entry")
	nprim := 0
	for i := 0; i < n; i++ {
		me := m.entries[i]
		ki := info.GetKeyInfo()[i]
		verifrt.Assert(ki.GetKeyId() == me.fixedID, "KeyInfo carries the entry's id, in order")
		verifrt.Assert(ki.GetStatus() == tinkpb.KeyStatusType(me.status), "KeyInfo carries the entry's status")
		verifrt.Assert(ki.GetTypeUrl() == infoURLs[urlOf[i]], "KeyInfo carries the key's type URL")
		verifrt.Assert(ki.GetOutputPrefixType() == tinkpb.OutputPrefixType(ptOf[i]), "KeyInfo carries the key's output prefix type")
		if me.isPrimary {
			nprim++
			verifrt.Assert(info.GetPrimaryKeyId() == me.fixedID, "KeysetInfo names the primary key")
			p, err := h.Primary()
			verifrt.Assert(err == nil && p.KeyID() == me.fixedID && p.IsPrimary() && p.KeyStatus() == Enabled, "Primary() is the primary entry")
		}
	}
	verifrt.Assert(nprim == 1, "a handle has exactly one primary")
	// a second call gives an equal, independent message
	info2 := h.KeysetInfo()
	verifrt.Assert(info2 != info && len(info2.GetKeyInfo()) == n && info2.GetPrimaryKeyId() == info.GetPrimaryKeyId(), "KeysetInfo is rebuilt per call")
	info.KeyInfo[0].KeyId ^= 0xffffffff
	info.PrimaryKeyId ^= 1
	info3 := h.KeysetInfo()
	verifrt.Assert(info3.GetKeyInfo()[0].GetKeyId() == m.entries[0].fixedID && info3.GetPrimaryKeyId() == info2.GetPrimaryKeyId(), "mutating a returned KeysetInfo does not change the handle")
	// Entry(i): exactly the indices 0..n-1, for every int
	i := verifrt.Int("i")
	e, err := h.Entry(i)
	if i >= 0 && i < n {
		verifrt.Assert(err == nil && e != nil, "Entry(i) succeeds for 0 <= i < Len()")
		for j := 0; j < n; j++ {
			if j == i {
				verifrt.Assert(e.KeyID() == m.entries[j].fixedID && e.KeyStatus() == m.entries[j].status && e.IsPrimary() == m.entries[j].isPrimary, "Entry(i) is the i-th entry")
			}
		}
		verifrt.Reach("entry-ok")
	} else {
		verifrt.Assert(err != nil && e == nil, "Entry(i) refuses every other index")
		verifrt.Reach("entry-refused")
	}
	verifrt.Reach("end")
}

func VerifH_handle_nil() {
	var h *Handle
	verifrt.Assert(h.Len() == 0, "nil handle: Len 0")
	_, err := h.Primary()
	verifrt.Assert(err != nil, "nil handle: Primary fails")
	_, err = h.Entry(verifrt.Int("i"))
	verifrt.Assert(err != nil, "nil handle: Entry fails")
	_, err = h.Public()
	verifrt.Assert(err != nil, "nil handle: Public fails")
	_, err = entriesToKeysetInfo(nil)
	verifrt.Assert(err != nil, "entriesToKeysetInfo refuses an empty list")
	verifrt.Reach("end")
}

// ---- Handle.Public (C13: the public handle holds the public keys and nothing else)

type stubPub struct {
	id  uint32
	req bool
	tag int
}

func (k *stubPub) Parameters() key.Parameters   { return &stubParams{req: k.req} }
func (k *stubPub) IDRequirement() (uint32, bool) { return k.id, k.req }
func (k *stubPub) Equal(o key.Key) bool {
	q, ok := o.(*stubPub)
	return ok && q.id == k.id && q.req == k.req && q.tag == k.tag
}

var errNoPub = errors.New("stub: no public key")

type stubPriv struct {
	stubKey
	fail bool
	pub  *stubPub
	asked *int
}

func (k *stubPriv) PublicKey() (key.Key, error) {
	*k.asked++
	if k.fail {
		return nil, errNoPub
	}
	return k.pub, nil
}

func VerifH_handle_public() {
	n := 1 + verifrt.Choice("n", mgrMax())
	names := [...]string{"e0", "e1", "e2", "e3"}
	asked := 0
	var entries []*Entry
	var pubs [4]*stubPub
	var kind [4]int // 0 private, 1 private whose PublicKey fails, 2 not a private key
	allPriv := true
	nprim := 0
	for i := 0; i < n; i++ {
		id := verifrt.Uint32(names[i] + ".id")
		st := statusOf(names[i] + ".status")
		prim := verifrt.Bool(names[i] + ".primary")
		req := verifrt.Bool(names[i] + ".req")
		verifrt.Assume(verifrt.Implies(prim, st == Enabled))
		nprim += b2i(prim)
		kid := uint32(0)
		if req {
			kid = id
		}
		kind[i] = verifrt.Choice(names[i]+".kind", 3)
		var k key.Key
		switch kind[i] {
		case 2:
			k = &stubKey{id: kid, req: req, tag: i}
			allPriv = false
		default:
			pubs[i] = &stubPub{id: kid, req: req, tag: 100 + i}
			k = &stubPriv{stubKey: stubKey{id: kid, req: req, tag: i}, fail: kind[i] == 1, pub: pubs[i], asked: &asked}
			if kind[i] == 1 {
				allPriv = false
			}
		}
		entries = append(entries, newUnmonitoredEntry(k, prim, id, st))
	}
	verifrt.Assume(nprim == 1)
	h, err := newFromEntries(entries)
	verifrt.Assert(err == nil && h != nil, "handle from well-formed entries")
	ph, err := h.Public()
	if !allPriv {
		verifrt.Assert(err != nil && ph == nil, "Public() fails when some key is not a private key or has no public key")
		verifrt.Reach("refused")
		return
	}
	verifrt.Assert(err == nil && ph != nil, "Public() succeeds on a keyset of private keys")
	verifrt.Assert(ph != h && ph.Len() == n, "a new handle with one entry per key")
	verifrt.Assert(asked == n, "every key is asked for its public key exactly once")
	np := 0
	for i := 0; i < n; i++ {
		pe, err := ph.Entry(i)
		verifrt.Assert(err == nil, "entry i")
		verifrt.Assert(pe.KeyID() == entries[i].keyID && pe.KeyStatus() == entries[i].status && pe.IsPrimary() == entries[i].isPrimary, "id, status and primary flag carried over, in order")
		k := pe.Key()
		verifrt.Assert(k == key.Key(pubs[i]), "the public handle's key is the private key's PublicKey()")
		_, isPriv := k.(*stubPriv)
		verifrt.Assert(!isPriv, "no private key object in the public handle")
		np += b2i(pe.IsPrimary())
		// the original handle is unchanged
		oe, _ := h.Entry(i)
		_, still := oe.Key().(*stubPriv)
		verifrt.Assert(still, "the private handle still holds the private key")
	}
	pp, err := ph.Primary()
	verifrt.Assert(err == nil && np == 1 && pp.IsPrimary(), "the public handle has the same single primary")
	verifrt.Reach("end")
}
