package keyset

import "github.com/tink-crypto/tink-go/v2/internal/verifrt"

// newRandomKeyID returns be32 of the first 4-byte draw that is not an already used id,
// marks it used, and never returns a used id. Hence it is an injective image of that draw
// (uniform over the unused 32-bit values when the source is uniform).
func VerifH_c20_keyid() {
	n := verifrt.Choice("n", 3)
	m := arbitraryManager(n)
	var used []uint32
	for _, e := range m.entries {
		used = append(used, e.fixedID)
	}
	verifrt.UnwindAssume(3)
	d0 := verifrt.Draws()
	id := m.newRandomKeyID()
	d1 := verifrt.Draws()
	verifrt.Assert(d1 > d0, "at least one draw")
	last := verifrt.DrawBytes(d1 - 1)
	verifrt.Assert(len(last) == 4, "each draw is 4 bytes")
	want := uint32(last[0])<<24 | uint32(last[1])<<16 | uint32(last[2])<<8 | uint32(last[3])
	verifrt.Assert(id == want, "the id is the full 32 bits of the last draw (big-endian), no masking")
	for _, u := range used {
		verifrt.Assert(id != u, "a live id is never handed out again")
	}
	verifrt.Assert(m.unavailableKeyIDs[id], "the new id is recorded as used")
	// every earlier draw in this call was rejected only because it was already used
	for i := d0; i < d1-1; i++ {
		b := verifrt.DrawBytes(i)
		x := uint32(b[0])<<24 | uint32(b[1])<<16 | uint32(b[2])<<8 | uint32(b[3])
		verifrt.Assert(m.unavailableKeyIDs[x], "a draw is discarded only if that id was already used")
	}
	verifrt.Reach("end")
}
