package keyset

import (
	"github.com/tink-crypto/tink-go/v2/internal/verifrt"
)

// keyset/option.go. WithAnnotations / applyOptions: options are applied in order; an
// annotations option fails exactly when the handle already carries (non-nil) annotations,
// and then nothing later is applied and the annotations stay those of the first option;
// newFromEntries returns no handle when an option fails.
func VerifH_keyset_options() {
	id := verifrt.Uint32("id")
	mk := func() []*Entry {
		return []*Entry{{key: &stubKey{id: id, req: true, tag: 0}, isPrimary: true, keyID: id, status: Enabled}}
	}
	a := map[string]string{}
	b := map[string]string{}
	var none map[string]string
	sel := verifrt.Choice("opts", 7)
	var opts []Option
	wantErr := false
	var want map[string]string
	switch sel {
	case 0: // no option
	case 1:
		opts, want = []Option{WithAnnotations(a)}, a
	case 2:
		opts, want = []Option{WithAnnotations(none)}, nil
	case 3:
		opts, wantErr, want = []Option{WithAnnotations(a), WithAnnotations(b)}, true, a
	case 4:
		opts, want = []Option{WithAnnotations(none), WithAnnotations(b)}, b // nothing there yet: allowed
	case 5:
		opts, wantErr, want = []Option{WithAnnotations(a), WithAnnotations(none)}, true, a
	default:
		opts, wantErr, want = []Option{WithAnnotations(none), WithAnnotations(b), WithAnnotations(a)}, true, b
	}
	// applyOptions on a bare handle: order, stop at the first failure
	h := &Handle{}
	err := applyOptions(h, opts...)
	verifrt.Assert((err != nil) == wantErr, "applyOptions fails exactly when annotations are set twice")
	if want == nil {
		verifrt.Assert(h.annotations == nil, "no annotations")
	} else {
		want["probe"] = "x" // identity check: the handle holds the very map of the option that succeeded
		verifrt.Assert(h.annotations != nil && h.annotations["probe"] == "x", "the handle keeps the annotations of the (only) option that was applied")
		delete(want, "probe")
		verifrt.Assert(len(h.annotations) == 0, "probe removed again")
	}
	// the constructor
	kh, err := newFromEntries(mk(), opts...)
	verifrt.Assert((err != nil) == wantErr, "newFromEntries fails exactly when an option fails")
	verifrt.Assert((kh == nil) == (err != nil), "no handle together with an error")
	if err == nil {
		verifrt.Assert((kh.annotations == nil) == (want == nil), "annotations present iff an option supplied them")
		verifrt.Assert(kh.Len() == 1 && kh.primaryKeyEntry == kh.entries[0], "entries and primary kept")
	}
	verifrt.Reach("end")
}
