package keyset

import (
	"errors"
	"github.com/tink-crypto/tink-go/v2/internal/internalapi"
	"github.com/tink-crypto/tink-go/v2/internal/protoserialization"
	tinkpb "github.com/tink-crypto/tink-go/v2/proto/tink_go_proto"
	"github.com/tink-crypto/tink-go/v2/internal/verifrt"
	"github.com/tink-crypto/tink-go/v2/key"
)

// ---- opaque stub keys: only their ID requirement matters to the manager

type stubParams struct{ req bool }

func (p *stubParams) HasIDRequirement() bool          { return p.req }
func (p *stubParams) Equal(o key.Parameters) bool     { q, ok := o.(*stubParams); return ok && q.req == p.req }

type stubKey struct {
	id  uint32
	req bool
	tag int
}

func (k *stubKey) Parameters() key.Parameters   { return &stubParams{req: k.req} }
func (k *stubKey) IDRequirement() (uint32, bool) { return k.id, k.req }
func (k *stubKey) Equal(o key.Key) bool {
	q, ok := o.(*stubKey)
	return ok && q.id == k.id && q.req == k.req && q.tag == k.tag
}

func mgrMax() int {
	if verifrt.Thorough() {
		return 4
	}
	return 3
}

type snap struct {
	id      uint32
	status  KeyStatus
	primary bool
	k       key.Key
}

func snapshot(m *Manager) []snap {
	out := make([]snap, len(m.entries))
	for i, e := range m.entries {
		out[i] = snap{e.fixedID, e.status, e.isPrimary, e.key}
	}
	return out
}

func statusOf(name string) KeyStatus {
	st := KeyStatus(verifrt.Int(name)) // symbolic: Enabled, Disabled or Destroyed
	verifrt.Assume(st >= Enabled && st <= Destroyed)
	return st
}

func b2i(b bool) int {
	x := 0
	if b {
		x = 1
	}
	return x
}

// arbitraryManager builds an arbitrary manager state with n entries satisfying the
// representation invariant Inv (assumed): ids pairwise distinct, every id recorded as
// unavailable, at most one primary, the primary is ENABLED, statuses known, keys with an
// ID requirement carry their entry's id.
func arbitraryManager(n int) *Manager {
	m := NewManager()
	handedOut = nil
	names := [...]string{"e0", "e1", "e2", "e3"}
	nprim := 0
	for i := 0; i < n; i++ {
		id := verifrt.Uint32(names[i] + ".id")
		st := statusOf(names[i] + ".status")
		prim := verifrt.Bool(names[i] + ".primary")
		req := verifrt.Bool(names[i] + ".req")
		kid := uint32(0)
		if req {
			kid = id
		}
		for j := 0; j < i; j++ {
			verifrt.Assume(m.entries[j].fixedID != id)
		}
		verifrt.Assume(verifrt.Implies(prim, st == Enabled))
		nprim += b2i(prim)
		m.entries = append(m.entries, &entry{key: &stubKey{id: kid, req: req, tag: i}, fixedID: id, hasFixedID: req, status: st, isPrimary: prim})
		m.unavailableKeyIDs[id] = true
	}
	verifrt.Assume(nprim <= 1)
	// up to two more ids that were handed out and deleted earlier
	for i := 0; i < verifrt.Choice("extra", 3); i++ {
		x := verifrt.Uint32([...]string{"x0", "x1"}[i])
		m.unavailableKeyIDs[x] = true
		handedOut = append(handedOut, x)
	}
	for _, e := range m.entries {
		handedOut = append(handedOut, e.fixedID)
	}
	return m
}

// handedOut: every id the manager has handed out so far (live or deleted) in the arbitrary
// pre-state. Part of the inductive invariant: none of them ever becomes available again, so
// that ids handed out by one manager stay pairwise distinct over its whole history (C20).
var handedOut []uint32

func checkNeverReissued(m *Manager, what string) {
	for _, x := range handedOut {
		verifrt.Assert(m.unavailableKeyIDs[x], what+": an id that was handed out (even if its key was deleted) stays unavailable")
	}
}

func checkInv(m *Manager, what string) {
	nprim := 0
	for i, e := range m.entries {
		for j := 0; j < i; j++ {
			verifrt.Assert(m.entries[j].fixedID != e.fixedID, what+": key ids pairwise distinct")
		}
		verifrt.Assert(m.unavailableKeyIDs[e.fixedID], what+": every live id is recorded as unavailable")
		verifrt.Assert(e.status == Enabled || e.status == Disabled || e.status == Destroyed, what+": status known")
		nprim += b2i(e.isPrimary)
		verifrt.Assert(verifrt.Implies(e.isPrimary, e.status == Enabled), what+": the primary is ENABLED")
		idr, req := e.key.IDRequirement()
		verifrt.Assert(verifrt.Implies(req, idr == e.fixedID), what+": a key with an ID requirement keeps that id")
	}
	verifrt.Assert(nprim <= 1, what+": at most one primary")
}

func unchanged(m *Manager, before []snap, what string) {
	verifrt.Assert(len(m.entries) == len(before), what+": failed operation leaves the entry count unchanged")
	if len(m.entries) != len(before) {
		return
	}
	for i, e := range m.entries {
		b := before[i]
		verifrt.Assert(e.fixedID == b.id && e.status == b.status && e.isPrimary == b.primary && e.key == b.k, what+": failed operation leaves every entry unchanged")
	}
}

func find(s []snap, id uint32) int {
	for i := range s {
		if s[i].id == id {
			return i
		}
	}
	return -1
}

func checkHandle(m *Manager, what string) {
	h, err := m.Handle()
	nprim := 0
	for _, e := range m.entries {
		nprim += b2i(e.isPrimary)
	}
	verifrt.Assert((err == nil) == (nprim == 1), what+": Handle() fails iff there is no primary")
	if err != nil {
		return
	}
	verifrt.Assert(h.Len() == len(m.entries), what+": handle mirrors the manager (length)")
	np := 0
	for i := 0; i < h.Len(); i++ {
		e, _ := h.Entry(i)
		me := m.entries[i]
		verifrt.Assert(e.KeyID() == me.fixedID && e.KeyStatus() == me.status && e.IsPrimary() == me.isPrimary, what+": handle mirrors the manager (entry)")
		np += b2i(e.IsPrimary())
		verifrt.Assert(verifrt.Implies(e.IsPrimary(), e.KeyStatus() == Enabled), what+": handle primary is ENABLED")
		for j := 0; j < i; j++ {
			o, _ := h.Entry(j)
			verifrt.Assert(o.KeyID() != e.KeyID(), what+": handle ids distinct")
		}
	}
	verifrt.Assert(np == 1, what+": handle has exactly one primary")
	p, err := h.Primary()
	verifrt.Assert(err == nil && p.IsPrimary(), what+": Primary() is the primary entry")
}

// One arbitrary operation from an arbitrary valid state: the inductive step (one harness
// per operation so that they run in parallel).
func VerifH_manager_step_addkey()     { managerStep(0) }
func VerifH_manager_step_setprimary() { managerStep(1) }
func VerifH_manager_step_enable()     { managerStep(2) }
func VerifH_manager_step_disable()    { managerStep(3) }
func VerifH_manager_step_delete()     { managerStep(4) }
func VerifH_manager_step_handle()     { managerStep(5) }
func VerifH_manager_step_addopts()    { managerStep(6) }

func managerStep(op int) {
	n := verifrt.Choice("n", mgrMax()+1)
	if op == 6 && n > 2 && !verifrt.Thorough() {
		verifrt.Assume(false) // the option set multiplies the paths: two entries in the quick tier
	}
	m := arbitraryManager(n)
	before := snapshot(m)
	id := verifrt.Uint32("arg.id")
	// the random-id redraw loop terminates within 3 draws (stated assumption)
	verifrt.UnwindAssume(3)
	switch op {
	case 0: // AddKey
		req := verifrt.Bool("new.req")
		nk := &stubKey{id: id, req: req, tag: 99}
		if !req {
			nk.id = 0
		}
		got, err := m.AddKey(nk)
		if err != nil {
			unchanged(m, before, "AddKey")
			verifrt.Assert(req, "AddKey fails only for a colliding required id")
		} else {
			verifrt.Assert(len(m.entries) == n+1, "AddKey appends one entry")
			last := m.entries[n]
			verifrt.Assert(last.fixedID == got && last.key == key.Key(nk) && last.status == Enabled && !last.isPrimary, "AddKey: new entry is ENABLED, not primary, has the returned id")
			if req {
				verifrt.Assert(got == id, "AddKey: key with ID requirement got exactly that id")
			}
			verifrt.Assert(find(before, got) == -1, "AddKey: returned id was not in use")
			for i := 0; i < n; i++ {
				e := m.entries[i]
				verifrt.Assert(e.fixedID == before[i].id && e.status == before[i].status && e.isPrimary == before[i].primary, "AddKey leaves existing entries alone")
			}
		}
	case 1: // SetPrimary
		err := m.SetPrimary(id)
		i := find(before, id)
		verifrt.Assert((err == nil) == (i >= 0 && before[i].status == Enabled), "SetPrimary succeeds iff the key exists and is ENABLED")
		if err != nil {
			unchanged(m, before, "SetPrimary")
		} else {
			for j, e := range m.entries {
				verifrt.Assert(e.isPrimary == (j == i), "SetPrimary: exactly the requested key is primary")
				verifrt.Assert(e.status == before[j].status && e.fixedID == before[j].id, "SetPrimary changes nothing else")
			}
		}
	case 2: // Enable
		err := m.Enable(id)
		i := find(before, id)
		verifrt.Assert((err == nil) == (i >= 0 && (before[i].status == Enabled || before[i].status == Disabled)), "Enable succeeds iff the key exists and is ENABLED or DISABLED")
		if err != nil {
			unchanged(m, before, "Enable")
		} else {
			verifrt.Assert(m.entries[i].status == Enabled, "Enable sets ENABLED")
		}
	case 3: // Disable
		err := m.Disable(id)
		i := find(before, id)
		verifrt.Assert((err == nil) == (i >= 0 && !before[i].primary && (before[i].status == Enabled || before[i].status == Disabled)), "Disable succeeds iff the key exists, is not primary and is ENABLED or DISABLED")
		if err != nil {
			unchanged(m, before, "Disable")
		} else {
			verifrt.Assert(m.entries[i].status == Disabled, "Disable sets DISABLED")
		}
	case 4: // Delete
		err := m.Delete(id)
		i := find(before, id)
		verifrt.Assert((err == nil) == (i >= 0 && !before[i].primary), "Delete succeeds iff the key exists and is not primary")
		if err != nil {
			unchanged(m, before, "Delete")
		} else {
			verifrt.Assert(len(m.entries) == n-1, "Delete removes one entry")
			for j, e := range m.entries {
				b := before[j]
				if j >= i {
					b = before[j+1]
				}
				verifrt.Assert(e.fixedID == b.id && e.status == b.status && e.isPrimary == b.primary, "Delete keeps the others in order")
			}
		}
	case 6: // AddKeyWithOpts (internal API used by the key-derivation and hybrid factories): any option set
		req := verifrt.Bool("new.req")
		nk := &stubKey{id: id, req: req, tag: 99}
		if !req {
			nk.id = 0
		}
		var opts []KeyOpts
		st := Enabled
		withStatus := verifrt.Bool("opt.status")
		if withStatus {
			st = KeyStatus(verifrt.Int("opt.status.v")) // any value, also unknown ones
			verifrt.Assume(st >= Unknown && st <= Destroyed) // the four declared KeyStatus values
			opts = append(opts, WithStatus(st))
		}
		fixed := verifrt.Bool("opt.fixed")
		fid := verifrt.Uint32("opt.fixed.id")
		if fixed {
			opts = append(opts, WithFixedID(fid))
		}
		prim := verifrt.Bool("opt.primary")
		if prim {
			opts = append(opts, AsPrimary())
		}
		wantID, hasWant := id, req
		if fixed && !req {
			wantID, hasWant = fid, true
		}
		statusKnown := st == Enabled || st == Disabled || st == Destroyed
		wantErr := (fixed && req && fid != id) || !statusKnown || (prim && st != Enabled) || (hasWant && m.unavailableKeyIDs[wantID]) // in use now or handed out earlier
		got, err := m.AddKeyWithOpts(nk, internalapi.Token{}, opts...)
		if wantErr {
			verifrt.Assert(err != nil, "AddKeyWithOpts refuses: WithFixedID against the key's own id requirement, an unknown status, a primary that is not ENABLED, a fixed id that is in use or was ever handed out")
		}
		if err != nil {
			// The property lists Add / AddKey / AddNewKeyFromParameters; for this internal entry
			// point "error => unchanged" is observed, not asserted (AsPrimary together with a
			// colliding fixed id clears the old primary flag before failing: see DESIGN §6).
			verifrt.Assert(wantErr, "AddKeyWithOpts fails only for those reasons")
			verifrt.Assert(len(m.entries) == n, "AddKeyWithOpts: no entry is added on error")
			for i := 0; i < n && i < len(m.entries); i++ {
				e := m.entries[i]
				verifrt.Assert(e.fixedID == before[i].id && e.status == before[i].status && e.key == before[i].k, "AddKeyWithOpts: ids, statuses and keys unchanged on error")
			}
			verifrt.Reach("addopts-refused")
		} else {
			verifrt.Assert(len(m.entries) == n+1, "AddKeyWithOpts appends one entry")
			last := m.entries[n]
			verifrt.Assert(last.fixedID == got && last.key == key.Key(nk) && last.status == st && last.isPrimary == prim, "AddKeyWithOpts: the new entry has the requested status / primary flag and the returned id")
			verifrt.Assert(verifrt.Implies(hasWant, got == wantID), "AddKeyWithOpts: id requirement / fixed id honoured")
			verifrt.Assert(find(before, got) == -1, "AddKeyWithOpts: returned id was not in use")
			for i := 0; i < n; i++ {
				e := m.entries[i]
				verifrt.Assert(e.fixedID == before[i].id && e.status == before[i].status && e.isPrimary == (before[i].primary && !prim), "AddKeyWithOpts leaves existing entries alone, except that a new primary replaces the old one")
			}
			verifrt.Reach("addopts-ok")
		}
	default: // Handle only
	}
	checkInv(m, "post")
	checkNeverReissued(m, "post")
	checkHandle(m, "post")
	verifrt.Reach("end")
}

// Base cases: the empty manager and a manager made from a handle satisfy Inv.
func VerifH_manager_base() {
	m := NewManager()
	checkInv(m, "NewManager")
	_, err := m.Handle()
	verifrt.Assert(err != nil, "empty manager has no handle")
	n := 1 + verifrt.Choice("n", mgrMax())
	src := arbitraryManager(n)
	h, err := src.Handle()
	if err != nil {
		verifrt.Reach("noprimary")
		return
	}
	m2 := NewManagerFromHandle(h)
	checkInv(m2, "NewManagerFromHandle")
	verifrt.Assert(len(m2.entries) == n, "NewManagerFromHandle copies every entry")
	verifrt.Reach("end")
}

// Handles are unaffected by later manager operations (and vice versa).
func VerifH_manager_isolation() {
	n := 1 + verifrt.Choice("n", 2)
	m := arbitraryManager(n)
	h, err := m.Handle()
	if err != nil {
		verifrt.Reach("noprimary")
		return
	}
	type hs struct {
		id uint32
		st KeyStatus
		p  bool
	}
	var before []hs
	for i := 0; i < h.Len(); i++ {
		e, _ := h.Entry(i)
		before = append(before, hs{e.KeyID(), e.KeyStatus(), e.IsPrimary()})
	}
	id := verifrt.Uint32("arg.id")
	verifrt.UnwindAssume(3)
	switch verifrt.Choice("op", 5) {
	case 0:
		m.AddKey(&stubKey{id: id, req: verifrt.Bool("new.req"), tag: 99})
	case 1:
		m.SetPrimary(id)
	case 2:
		m.Enable(id)
	case 3:
		m.Disable(id)
	default:
		m.Delete(id)
	}
	verifrt.Assert(h.Len() == len(before), "earlier handle keeps its length")
	for i := 0; i < h.Len() && i < len(before); i++ {
		e, _ := h.Entry(i)
		verifrt.Assert(e.KeyID() == before[i].id && e.KeyStatus() == before[i].st && e.IsPrimary() == before[i].p, "earlier handle is unaffected by later manager operations")
	}
	// and a manager made from the handle does not write through to it
	m2 := NewManagerFromHandle(h)
	m2.SetPrimary(id)
	m2.Disable(verifrt.Uint32("arg.id2"))
	for i := 0; i < h.Len() && i < len(before); i++ {
		e, _ := h.Entry(i)
		verifrt.Assert(e.KeyID() == before[i].id && e.KeyStatus() == before[i].st && e.IsPrimary() == before[i].p, "handle is unaffected by a manager created from it")
	}
	verifrt.Reach("end")
}

// Manager.Add(template) (also AddNewKeyFromParameters and NewHandle) from an arbitrary valid
// state: the new key is created with ID requirement == the new entry's id for every output
// prefix type except RAW (TINK, LEGACY and CRUNCHY all bind the id), and 0 for RAW; the entry
// is appended ENABLED and not primary under an id that was never handed out; the UNKNOWN
// prefix type and nil templates are refused and leave the state unchanged. Both key-creation
// paths (the parameters registry and the legacy key-manager registry) are stubbed at the
// registry boundary.
func VerifH_manager_step_add() {
	verifrt.NativeSkip("key creation (registries) is summarised")
	n := verifrt.Choice("n", mgrMax())
	m := arbitraryManager(n)
	before := snapshot(m)
	verifrt.UnwindAssume(3)
	pt := [...]tinkpb.OutputPrefixType{tinkpb.OutputPrefixType_UNKNOWN_PREFIX, tinkpb.OutputPrefixType_TINK, tinkpb.OutputPrefixType_LEGACY, tinkpb.OutputPrefixType_RAW, tinkpb.OutputPrefixType_CRUNCHY, tinkpb.OutputPrefixType_WITH_ID_REQUIREMENT}[verifrt.Choice("prefix", 6)]
	newPath := verifrt.Choice("registry", 2) == 0
	var createdReq uint32
	created := 0
	verifrt.Summarize("internal/protoserialization.ParseParameters", func(kt *tinkpb.KeyTemplate) (key.Parameters, error) {
		if !newPath {
			return nil, errStubAdd
		}
		return &stubParams{req: kt.GetOutputPrefixType() != tinkpb.OutputPrefixType_RAW}, nil
	})
	verifrt.Summarize("internal/keygenregistry.CreateKey", func(p key.Parameters, idRequirement uint32) (key.Key, error) {
		created++
		createdReq = idRequirement
		return &stubKey{id: idRequirement, req: p.HasIDRequirement(), tag: 77}, nil
	})
	verifrt.Summarize("core/registry.NewKeyData", func(kt *tinkpb.KeyTemplate) (*tinkpb.KeyData, error) {
		return &tinkpb.KeyData{TypeUrl: kt.GetTypeUrl(), Value: []byte{1}, KeyMaterialType: tinkpb.KeyData_SYMMETRIC}, nil
	})
	verifrt.Summarize("internal/protoserialization.ParseKey", func(s *protoserialization.KeySerialization) (key.Key, error) {
		created++
		id, req := s.IDRequirement()
		createdReq = id
		return &stubKey{id: id, req: req, tag: 78}, nil
	})
	id, err := m.Add(&tinkpb.KeyTemplate{TypeUrl: "type.googleapis.com/stub", OutputPrefixType: pt})
	if pt == tinkpb.OutputPrefixType_UNKNOWN_PREFIX {
		verifrt.Assert(err != nil, "a template with the UNKNOWN prefix type is refused")
		unchanged(m, before, "Add")
		verifrt.Reach("refused")
		return
	}
	verifrt.Assert(err == nil && created == 1, "Add succeeds and creates exactly one key")
	verifrt.Assert(len(m.entries) == n+1, "Add appends one entry")
	last := m.entries[n]
	verifrt.Assert(last.fixedID == id && last.status == Enabled && !last.isPrimary, "the new entry is ENABLED, not primary, and has the returned id")
	verifrt.Assert(find(before, id) == -1, "the returned id was not in use")
	for _, x := range handedOut {
		verifrt.Assert(x != id, "the returned id was never handed out before")
	}
	if pt == tinkpb.OutputPrefixType_RAW {
		verifrt.Assert(createdReq == 0, "RAW: the key is created without an ID requirement")
	} else {
		verifrt.Assert(createdReq == id, "TINK / LEGACY / CRUNCHY / WITH_ID_REQUIREMENT (every prefix type but RAW): the key is created with ID requirement == the entry's id")
	}
	idr, req := last.key.IDRequirement()
	verifrt.Assert(verifrt.Implies(req, idr == id), "a key with an ID requirement carries the entry's id")
	for i := 0; i < n; i++ {
		e := m.entries[i]
		verifrt.Assert(e.fixedID == before[i].id && e.status == before[i].status && e.isPrimary == before[i].primary, "Add leaves existing entries alone")
	}
	checkInv(m, "post")
	checkNeverReissued(m, "post")
	_, err = m.Add(nil)
	verifrt.Assert(err != nil && len(m.entries) == n+1, "a nil template is refused")
	verifrt.Reach("end")
}

var errStubAdd = errors.New("no parameters parser")
