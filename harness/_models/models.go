// Package verifmodels holds the environment models the symbolic engine substitutes for
// standard-library cryptography, randomness and formatting. Each model is ordinary Go
// executed by the same interpreter; cryptographic cores are uninterpreted functions
// (verifrt.UF / UFInj). Nothing here runs natively.
package verifmodels

import (
	"crypto/ecdsa"
	"crypto/ed25519"
	"io"
	"crypto"
	"golang.org/x/crypto/sha3"
	"time"
	"crypto/aes"
	"crypto/cipher"
	"errors"
	"hash"

	"github.com/tink-crypto/tink-go/v2/internal/verifrt"
)

// ---------------------------------------------------------------- AES block cipher

// AESBlock is an ideal permutation pair (E_k, D_k) on 16-byte blocks.
type AESBlock struct{ key []byte }

//verif:intercept crypto/aes.NewCipher
func AESNewCipher(key []byte) (cipher.Block, error) {
	switch len(key) {
	case 16, 24, 32:
	default:
		return nil, aes.KeySizeError(len(key))
	}
	k := make([]byte, len(key))
	copy(k, key)
	return &AESBlock{key: k}, nil
}

func (b *AESBlock) BlockSize() int { return 16 }

var (
	// AESAxioms makes the model assert the permutation axioms D(E(x)) = x, E(D(y)) = y as
	// solver constraints for every application made after it is set (so E_k and D_k are
	// injective), in addition to the syntactic inverse shortcut. Off by default: most
	// modes in this tree only ever invert blocks they literally produced.
	AESAxioms bool
)

// EncryptBlock returns E_k(x) as a fresh slice. If x is literally D_k(y) for an earlier
// DecryptBlock call, y is returned (E_k(D_k(y)) = y), and vice versa in DecryptBlock: the
// inverse of a block the code itself produced needs no solver reasoning.
func (b *AESBlock) EncryptBlock(x []byte) []byte {
	x = append([]byte{}, x...)
	if y, ok := verifrt.MemoGet("aes.E-of-D", b.key, x); ok {
		return y
	}
	y := verifrt.UF("AESE", 16, b.key, x)
	if AESAxioms {
		verifrt.AssumeEq(verifrt.UF("AESD", 16, b.key, y), x)
	}
	verifrt.MemoPut("aes.D-of-E", x, b.key, y)
	return y
}

func (b *AESBlock) DecryptBlock(y []byte) []byte {
	y = append([]byte{}, y...)
	if x, ok := verifrt.MemoGet("aes.D-of-E", b.key, y); ok {
		return x
	}
	x := verifrt.UF("AESD", 16, b.key, y)
	if AESAxioms {
		verifrt.AssumeEq(verifrt.UF("AESE", 16, b.key, x), y)
	}
	verifrt.MemoPut("aes.E-of-D", y, b.key, x)
	return x
}

func (b *AESBlock) Encrypt(dst, src []byte) {
	if len(src) < 16 {
		panic("crypto/aes: input not full block")
	}
	if len(dst) < 16 {
		panic("crypto/aes: output not full block")
	}
	copy(dst, b.EncryptBlock(src[:16]))
}

func (b *AESBlock) Decrypt(dst, src []byte) {
	if len(src) < 16 {
		panic("crypto/aes: input not full block")
	}
	if len(dst) < 16 {
		panic("crypto/aes: output not full block")
	}
	copy(dst, b.DecryptBlock(src[:16]))
}

// ---------------------------------------------------------------- CTR mode (its definition)

type ctrStream struct {
	b    cipher.Block
	ctr  []byte
	out  []byte
	used int
}

//verif:intercept crypto/cipher.NewCTR
func NewCTR(block cipher.Block, iv []byte) cipher.Stream {
	if len(iv) != block.BlockSize() {
		panic("cipher.NewCTR: IV length must equal block size")
	}
	c := make([]byte, len(iv))
	copy(c, iv)
	return &ctrStream{b: block, ctr: c, out: nil, used: 0}
}

func (s *ctrStream) refill() {
	s.out = make([]byte, len(s.ctr))
	s.b.Encrypt(s.out, s.ctr)
	s.used = 0
	// big-endian increment of the whole counter block
	c := uint16(1)
	for i := len(s.ctr) - 1; i >= 0; i-- {
		v := uint16(s.ctr[i]) + c
		s.ctr[i] = byte(v)
		c = v >> 8
	}
}

func (s *ctrStream) XORKeyStream(dst, src []byte) {
	if len(dst) < len(src) {
		panic("crypto/cipher: output smaller than input")
	}
	for i := 0; i < len(src); i++ {
		if s.out == nil || s.used == len(s.out) {
			s.refill()
		}
		dst[i] = src[i] ^ s.out[s.used]
		s.used++
	}
}

// ---------------------------------------------------------------- hashes and HMAC

// Hash is a buffer-accumulating hash whose Sum is an injective uninterpreted function.
type Hash struct {
	name  string
	size  int
	block int
	key   []byte // nil for plain hashes
	buf   []byte
}

// HashInjective idealises hashes and HMAC as collision-free (distinct inputs give distinct
// full-length outputs) for the harnesses that need "different input => different key".
var HashInjective bool

func (h *Hash) Write(p []byte) (int, error) {
	h.buf = append(h.buf, p...)
	return len(p), nil
}

func (h *Hash) digest() []byte {
	msg := append([]byte{}, h.buf...)
	var out []byte
	if h.key != nil {
		if HashInjective {
			out = verifrt.UFInj("HMAC_"+h.name, h.size, h.key, msg)
		} else {
			out = verifrt.UF("HMAC_"+h.name, h.size, h.key, msg)
		}
		logMAC(h.key, msg, out)
	} else if HashInjective {
		out = verifrt.UFInj("HASH_"+h.name, h.size, msg)
	} else {
		out = verifrt.UF("HASH_"+h.name, h.size, msg)
	}
	return out
}

func (h *Hash) Sum(b []byte) []byte { return append(b, h.digest()...) }
func (h *Hash) Reset()              { h.buf = nil }
func (h *Hash) Size() int           { return h.size }
func (h *Hash) BlockSize() int      { return h.block }

func newHash(name string, size, block int) hash.Hash {
	return &Hash{name: name, size: size, block: block}
}

//verif:intercept crypto/sha1.New
func SHA1New() hash.Hash { return newHash("sha1", 20, 64) }

//verif:intercept crypto/sha256.New
func SHA256New() hash.Hash { return newHash("sha256", 32, 64) }

//verif:intercept crypto/sha256.New224
func SHA224New() hash.Hash { return newHash("sha224", 28, 64) }

//verif:intercept crypto/sha512.New
func SHA512New() hash.Hash { return newHash("sha512", 64, 128) }

//verif:intercept crypto/sha512.New384
func SHA384New() hash.Hash { return newHash("sha384", 48, 128) }

//verif:intercept crypto/hmac.New
func HMACNew(h func() hash.Hash, key []byte) hash.Hash {
	inner := h().(*Hash)
	// RFC 2104 steps 1-3: K0 = key zero-padded to the block size (hashed first if longer),
	// so keys that differ only in trailing zeros are the same HMAC key
	k := make([]byte, inner.block)
	if len(key) > inner.block {
		inner.Write(key)
		copy(k, inner.Sum(nil))
	} else {
		copy(k, key)
	}
	return &Hash{name: inner.name, size: inner.size, block: inner.block, key: k}
}

// HMACEqual models crypto/hmac.Equal. Byte equality, except for the unforgeability
// idealisation: once AdversaryPhase() has been called, a MAC computed over a message that
// no honest computation has MACed under that key never equals the untrusted candidate.
//
//verif:intercept crypto/hmac.Equal
func HMACEqual(a, b []byte) bool {
	eq := verifrt.EqBytes(a, b)
	for _, r := range macLog {
		if r.honest {
			continue
		}
		hit := (len(a) <= len(r.out) && verifrt.SameBytes(a, r.out[:len(a)])) || (len(b) <= len(r.out) && verifrt.SameBytes(b, r.out[:len(b)]))
		if !hit {
			continue
		}
		fresh := true
		for _, h := range macLog {
			if !h.honest {
				continue
			}
			fresh = verifrt.And(fresh, verifrt.Not(verifrt.And(verifrt.EqBytes(h.key, r.key), verifrt.EqBytes(h.msg, r.msg))))
		}
		eq = verifrt.And(eq, verifrt.Not(fresh))
	}
	return eq
}

// MAC log for the unforgeability idealisation.
type macRec struct {
	key, msg, out []byte
	honest        bool
}

var macLog []macRec
var adversary bool

func logMAC(key, msg, out []byte) {
	macLog = append(macLog, macRec{key: key, msg: msg, out: out, honest: !adversary})
}

// AdversaryPhase marks everything computed from now on as triggered by untrusted input.
func AdversaryPhase() { adversary = true }

// ---------------------------------------------------------------- ideal nonce-based AEADs

// AEAD is an ideal nonce-based AEAD: Seal(n,p,a) = ENC_k(n,p) || TAG_k(n,a,ENC), with
// DEC the inverse of ENC and TAG injective. Open succeeds only on (n,a,c,t) tuples
// produced by Seal in this run (unforgeability idealisation).
type AEAD struct {
	alg       string
	key       []byte
	nonceSize int
	tagSize   int
}

type sealRec struct {
	key, nonce, ad, ct, tag, pt []byte
}

var sealLog []sealRec

func (a *AEAD) NonceSize() int { return a.nonceSize }
func (a *AEAD) Overhead() int  { return a.tagSize }

func (a *AEAD) enc(nonce, pt []byte) []byte {
	if len(pt) == 0 {
		return []byte{}
	}
	ct := verifrt.UF("ENC_"+a.alg, len(pt), a.key, nonce, pt)
	verifrt.AssumeEq(verifrt.UF("DEC_"+a.alg, len(pt), a.key, nonce, ct), pt)
	return ct
}

func (a *AEAD) dec(nonce, ct []byte) []byte {
	if len(ct) == 0 {
		return []byte{}
	}
	pt := verifrt.UF("DEC_"+a.alg, len(ct), a.key, nonce, ct)
	verifrt.AssumeEq(verifrt.UF("ENC_"+a.alg, len(ct), a.key, nonce, pt), ct)
	return pt
}

func (a *AEAD) Seal(dst, nonce, plaintext, additionalData []byte) []byte {
	if len(nonce) != a.nonceSize {
		panic("crypto/cipher: incorrect nonce length given to " + a.alg)
	}
	n := append([]byte{}, nonce...)
	ad := append([]byte{}, additionalData...)
	pt := append([]byte{}, plaintext...)
	ct := a.enc(n, pt)
	tag := verifrt.UF("TAG_"+a.alg, a.tagSize, a.key, n, ad, ct)
	sealLog = append(sealLog, sealRec{key: a.key, nonce: n, ad: ad, ct: ct, tag: tag, pt: pt})
	out := append(dst, ct...)
	return append(out, tag...)
}

var errOpen = errors.New("cipher: message authentication failed")

// Open is the ideal functionality: it succeeds iff (key, nonce, ad, ciphertext, tag) is
// exactly one of the tuples Seal produced on this path, and then returns that plaintext.
func (a *AEAD) Open(dst, nonce, ciphertext, additionalData []byte) ([]byte, error) {
	if len(nonce) != a.nonceSize {
		panic("crypto/cipher: incorrect nonce length given to " + a.alg)
	}
	if len(ciphertext) < a.tagSize {
		return nil, errOpen
	}
	ct := ciphertext[:len(ciphertext)-a.tagSize]
	tag := ciphertext[len(ciphertext)-a.tagSize:]
	for _, r := range sealLog {
		same := verifrt.And(verifrt.And(verifrt.EqBytes(r.key, a.key), verifrt.EqBytes(r.nonce, nonce)), verifrt.And(verifrt.EqBytes(r.ad, additionalData), verifrt.And(verifrt.EqBytes(r.ct, ct), verifrt.EqBytes(r.tag, tag))))
		if same {
			return append(dst, r.pt...), nil
		}
	}
	// Like the real GCM and ChaCha20-Poly1305 implementations, a failed Open clears the part
	// of dst's spare capacity it would have written the plaintext to ("the contents of dst, up
	// to its capacity, may be overwritten").
	if n := len(ct); cap(dst)-len(dst) >= n {
		out := dst[len(dst) : len(dst)+n]
		for i := range out {
			out[i] = 0
		}
	}
	return nil, errOpen
}

//verif:intercept crypto/cipher.NewGCM
func NewGCM(b cipher.Block) (cipher.AEAD, error) {
	blk, ok := b.(*AESBlock)
	if !ok {
		return nil, errors.New("cipher: NewGCM model needs the AES model")
	}
	return &AEAD{alg: "gcm", key: blk.key, nonceSize: 12, tagSize: 16}, nil
}

//verif:intercept crypto/cipher.NewGCMWithTagSize
func NewGCMWithTagSize(b cipher.Block, tagSize int) (cipher.AEAD, error) {
	blk, ok := b.(*AESBlock)
	if !ok {
		return nil, errors.New("cipher: NewGCM model needs the AES model")
	}
	if tagSize < 12 || tagSize > 16 {
		return nil, errors.New("cipher: incorrect tag size given to GCM")
	}
	return &AEAD{alg: "gcm", key: blk.key, nonceSize: 12, tagSize: tagSize}, nil
}

//verif:intercept golang.org/x/crypto/chacha20poly1305.New
func ChaCha20Poly1305New(key []byte) (cipher.AEAD, error) {
	if len(key) != 32 {
		return nil, errors.New("chacha20poly1305: bad key length")
	}
	return &AEAD{alg: "chacha", key: append([]byte{}, key...), nonceSize: 12, tagSize: 16}, nil
}

//verif:intercept golang.org/x/crypto/chacha20poly1305.NewX
func XChaCha20Poly1305New(key []byte) (cipher.AEAD, error) {
	if len(key) != 32 {
		return nil, errors.New("chacha20poly1305: bad key length")
	}
	return &AEAD{alg: "xchacha", key: append([]byte{}, key...), nonceSize: 24, tagSize: 16}, nil
}

// ---------------------------------------------------------------- randomness

//verif:intercept crypto/rand.Read
func RandRead(b []byte) (int, error) {
	if len(b) == 0 {
		return 0, nil
	}
	copy(b, verifrt.FreshBytes("rand", len(b)))
	return len(b), nil
}

// ---------------------------------------------------------------- formatting

// OpaqueError is what fmt.Errorf returns under the engine.
type OpaqueError struct{ wrapped error }

func (e *OpaqueError) Error() string { return "<formatted error>" }
func (e *OpaqueError) Unwrap() error { return e.wrapped }

//verif:intercept fmt.Errorf
func FmtErrorf(format string, a ...any) error {
	var w error
	for _, x := range a {
		if err, ok := x.(error); ok {
			w = err
		}
	}
	return &OpaqueError{wrapped: w}
}

//verif:intercept fmt.Sprintf
func FmtSprintf(format string, a ...any) string { return "<formatted>" }

//verif:intercept fmt.Sprint
func FmtSprint(a ...any) string { return "<formatted>" }

// ---------------------------------------------------------------- time

//verif:intercept time.Now
func TimeNow() time.Time {
	sec := verifrt.Int64("clock.sec")
	nsec := verifrt.Int64("clock.nsec")
	verifrt.Assume(sec >= 0 && sec <= 253402300799 && nsec >= 0 && nsec < 1000000000)
	return time.Unix(sec, nsec)
}

// ---------------------------------------------------------------- CBC mode (its definition)

type cbcMode struct {
	b   cipher.Block
	iv  []byte
	dec bool
}

//verif:intercept crypto/cipher.NewCBCEncrypter
func NewCBCEncrypter(b cipher.Block, iv []byte) cipher.BlockMode {
	if len(iv) != b.BlockSize() {
		panic("cipher.NewCBCEncrypter: IV length must equal block size")
	}
	return &cbcMode{b: b, iv: append([]byte{}, iv...)}
}

//verif:intercept crypto/cipher.NewCBCDecrypter
func NewCBCDecrypter(b cipher.Block, iv []byte) cipher.BlockMode {
	if len(iv) != b.BlockSize() {
		panic("cipher.NewCBCDecrypter: IV length must equal block size")
	}
	return &cbcMode{b: b, iv: append([]byte{}, iv...), dec: true}
}

func (m *cbcMode) BlockSize() int { return m.b.BlockSize() }

func (m *cbcMode) CryptBlocks(dst, src []byte) {
	bs := m.b.BlockSize()
	if len(src)%bs != 0 {
		panic("crypto/cipher: input not full blocks")
	}
	if len(dst) < len(src) {
		panic("crypto/cipher: output smaller than input")
	}
	for i := 0; i+bs <= len(src); i += bs {
		in := append([]byte{}, src[i:i+bs]...)
		out := make([]byte, bs)
		if m.dec {
			m.b.Decrypt(out, in)
			for j := range out {
				out[j] ^= m.iv[j]
			}
			m.iv = in
		} else {
			for j := range in {
				in[j] ^= m.iv[j]
			}
			m.b.Encrypt(out, in)
			m.iv = out
		}
		copy(dst[i:i+bs], out)
	}
}

// ---------------------------------------------------------------- SHAKE (x/crypto/sha3)

// Shake is an extendable-output function modelled as an uninterpreted function of the
// absorbed message; output chunk k (32 bytes) = SHAKE_alg(msg, k), so successive Reads
// are prefix-consistent.
type Shake struct {
	alg      string
	msg      []byte
	pos      int
	squeezed bool
}

func (s *Shake) Write(p []byte) (int, error) {
	if s.squeezed {
		panic("sha3: Write after Read")
	}
	s.msg = append(s.msg, p...)
	return len(p), nil
}

func (s *Shake) Read(p []byte) (int, error) {
	s.squeezed = true
	for i := range p {
		k := s.pos / 32
		chunk := verifrt.UF("SHAKE_"+s.alg, 32, s.msg, []byte{byte(k), byte(k >> 8)})
		p[i] = chunk[s.pos%32]
		s.pos++
	}
	return len(p), nil
}

func (s *Shake) Sum(b []byte) []byte {
	c := &Shake{alg: s.alg, msg: append([]byte{}, s.msg...)}
	out := make([]byte, s.Size())
	c.Read(out)
	return append(b, out...)
}
func (s *Shake) Reset() { s.msg, s.pos, s.squeezed = nil, 0, false }
func (s *Shake) Size() int {
	if s.alg == "128" {
		return 32
	}
	return 64
}
func (s *Shake) BlockSize() int {
	if s.alg == "128" {
		return 168
	}
	return 136
}
func (s *Shake) Clone() sha3.ShakeHash {
	return &Shake{alg: s.alg, msg: append([]byte{}, s.msg...), pos: s.pos, squeezed: s.squeezed}
}

//verif:intercept golang.org/x/crypto/sha3.NewShake128
func NewShake128() sha3.ShakeHash { return &Shake{alg: "128"} }

//verif:intercept golang.org/x/crypto/sha3.NewShake256
func NewShake256() sha3.ShakeHash { return &Shake{alg: "256"} }

//verif:intercept golang.org/x/crypto/sha3.ShakeSum128
func ShakeSum128(hash, data []byte) {
	s := &Shake{alg: "128", msg: append([]byte{}, data...)}
	s.Read(hash)
}

//verif:intercept golang.org/x/crypto/sha3.ShakeSum256
func ShakeSum256(hash, data []byte) {
	s := &Shake{alg: "256", msg: append([]byte{}, data...)}
	s.Read(hash)
}

// ---------------------------------------------------------------- crypto/hkdf (standard library)

// HKDFExtract models crypto/hkdf.Extract: PRK = HMAC-Hash(salt, IKM), a nil salt being
// HashLen zeros (RFC 5869 §2.2).
//
//verif:intercept crypto/hkdf.Extract
func HKDFExtract(h func() hash.Hash, secret, salt []byte) ([]byte, error) {
	if salt == nil {
		salt = make([]byte, h().Size())
	}
	m := HMACNew(h, salt)
	m.Write(secret)
	return m.Sum(nil), nil
}

// ---------------------------------------------------------------- crypto.Hash registry

// CryptoHashNew models crypto.Hash.New (the registration table is filled by package
// initialisers that the engine does not run).
//
//verif:intercept (crypto.Hash).New
func CryptoHashNew(h crypto.Hash) hash.Hash {
	switch h {
	case crypto.SHA1:
		return SHA1New()
	case crypto.SHA224:
		return SHA224New()
	case crypto.SHA256:
		return SHA256New()
	case crypto.SHA384:
		return SHA384New()
	case crypto.SHA512:
		return SHA512New()
	}
	panic("crypto: requested hash function is unavailable")
}

// ---------------------------------------------------------------- ideal signature schemes

// Ed25519: public key = PUB(seed); signature = SIGN(pub, msg) (64 bytes); Verify accepts
// exactly SIGN(pub, msg).
//
//verif:intercept crypto/ed25519.NewKeyFromSeed
func Ed25519NewKeyFromSeed(seed []byte) ed25519.PrivateKey {
	if len(seed) != 32 {
		panic("ed25519: bad seed length")
	}
	pub := verifrt.UF("ED25519PUB", 32, seed)
	return ed25519.PrivateKey(append(append([]byte{}, seed...), pub...))
}

//verif:intercept crypto/ed25519.Sign
func Ed25519Sign(priv ed25519.PrivateKey, message []byte) []byte {
	if len(priv) != 64 {
		panic("ed25519: bad private key length")
	}
	return verifrt.UF("ED25519SIG", 64, []byte(priv[32:]), message)
}

//verif:intercept crypto/ed25519.Verify
func Ed25519Verify(pub ed25519.PublicKey, message, sig []byte) bool {
	if len(pub) != 32 {
		panic("ed25519: bad public key length")
	}
	if len(sig) != 64 {
		return false
	}
	return verifrt.EqBytes(sig, verifrt.UF("ED25519SIG", 64, []byte(pub), message))
}

// ECDSA (ASN.1): the key objects are opaque; one key pair per harness. The signature over a
// digest is an uninterpreted 8-byte string; VerifyASN1 accepts exactly it.
//
//verif:intercept crypto/ecdsa.SignASN1
func ECDSASignASN1(rnd io.Reader, priv *ecdsa.PrivateKey, hash []byte) ([]byte, error) {
	return verifrt.UF("ECDSASIG", 8, hash), nil
}

//verif:intercept crypto/ecdsa.VerifyASN1
func ECDSAVerifyASN1(pub *ecdsa.PublicKey, hash, sig []byte) bool {
	return verifrt.EqBytes(sig, verifrt.UF("ECDSASIG", 8, hash))
}
