// Package verifrt is the harness runtime. Under the symbolic engine every function
// here is intercepted (nondet values, assumptions, obligations, monitors); compiled
// natively the same functions read a JSON assignment (VERIF_REPLAY) so that a
// solver model can be replayed against the real build.
package verifrt

import (
	"crypto/sha256"
	"encoding/json"
	"fmt"
	"os"
	"strings"
	"unsafe"
)

// Replay is the JSON document the engine writes for a counterexample or a validation run.
type Replay struct {
	Harness string              `json:"harness"`
	Tier    string              `json:"tier"`
	Inputs  map[string][]uint64 `json:"inputs"`
}

var (
	cur       Replay
	loaded    bool
	Failures  []string
	Observed  []string
	Reached   []string
	protected []protRec
	seq       = map[string]int{}
	draws     [][]byte
)

type protRec struct {
	full  []byte
	snap  []byte
	label string
}

// SkipPath is panicked by Assume(false) natively.
type SkipPath struct{ Why string }

// Reset clears per-run state and (re)loads the replay file.
func Reset() {
	Failures, Observed, Reached, protected, draws = nil, nil, nil, nil, nil
	seq = map[string]int{}
	cur = Replay{Inputs: map[string][]uint64{}}
	if p := os.Getenv("VERIF_REPLAY"); p != "" {
		b, err := os.ReadFile(p)
		if err != nil {
			panic(err)
		}
		if err := json.Unmarshal(b, &cur); err != nil {
			panic(err)
		}
		if cur.Inputs == nil {
			cur.Inputs = map[string][]uint64{}
		}
	}
	loaded = true
}

// Harness returns the harness named in the replay file.
func Harness() string {
	if !loaded {
		Reset()
	}
	return cur.Harness
}

func val(name string, i int) uint64 {
	if !loaded {
		Reset()
	}
	a := cur.Inputs[name]
	if i < len(a) {
		return a[i]
	}
	return 0
}

func Symbolic() bool { return false }

// Thorough reports whether the thorough tier's bounds are in force.
func Thorough() bool {
	if !loaded {
		Reset()
	}
	return cur.Tier == "thorough"
}

func Bytes(name string, n int) []byte { return BytesCap(name, n, n) }

func BytesCap(name string, n, c int) []byte {
	if c < n {
		c = n
	}
	b := make([]byte, c)
	for i := range b {
		b[i] = byte(val(name, i))
	}
	return b[:n:c]
}

func Byte(name string) byte     { return byte(val(name, 0)) }
func Uint16(name string) uint16 { return uint16(val(name, 0)) }
func Uint32(name string) uint32 { return uint32(val(name, 0)) }
func Int32(name string) int32   { return int32(val(name, 0)) }
func Uint64(name string) uint64 { return val(name, 0) }
func Int64(name string) int64   { return int64(val(name, 0)) }
func Int(name string) int       { return int(val(name, 0)) }
func Bool(name string) bool     { return val(name, 0) != 0 }

func IntRange(name string, lo, hi int) int {
	x := Int(name)
	Assume(lo <= x && x <= hi)
	return x
}

func Choice(name string, n int) int {
	x := Int(name)
	Assume(0 <= x && x < n)
	return x
}

func Concrete(x int) int          { return x }
func ConcreteU32(x uint32) uint32 { return x }

func Assume(c bool) {
	if !c {
		panic(SkipPath{"assumption false"})
	}
}

func Assert(c bool, msg string) {
	if !c {
		Failures = append(Failures, msg)
	}
}

func eq(a, b []byte) bool {
	if len(a) != len(b) {
		return false
	}
	for i := range a {
		if a[i] != b[i] {
			return false
		}
	}
	return true
}

func AssertEq(a, b []byte, msg string) {
	if !eq(a, b) {
		Failures = append(Failures, fmt.Sprintf("%s: %x != %x", msg, a, b))
	}
}

func AssertEqEach(a, b []byte, msg string) { AssertEq(a, b, msg) }

func AssertBits(a, b uint64, msg string) {
	if a != b {
		Failures = append(Failures, fmt.Sprintf("%s: %#x != %#x", msg, a, b))
	}
}

func Reach(label string) { Reached = append(Reached, label) }

func Observe(label string, vals ...any) {
	var sb strings.Builder
	sb.WriteString(label)
	for _, v := range vals {
		sb.WriteByte(' ')
		sb.WriteString(obsStr(v))
	}
	Observed = append(Observed, sb.String())
}

func obsStr(v any) string {
	switch v := v.(type) {
	case nil:
		return "nil"
	case error:
		return "nonnil"
	case bool:
		if v {
			return "true"
		}
		return "false"
	case []byte:
		if v == nil {
			return "[]"
		}
		parts := make([]string, len(v))
		for i, b := range v {
			parts[i] = fmt.Sprint(b)
		}
		return "[" + strings.Join(parts, " ") + "]"
	case string:
		return fmt.Sprintf("%q", v)
	case int:
		return fmt.Sprint(uint64(v))
	case int8:
		return fmt.Sprint(uint8(v))
	case int16:
		return fmt.Sprint(uint16(v))
	case int32:
		return fmt.Sprint(uint32(v))
	case int64:
		return fmt.Sprint(uint64(v))
	}
	return fmt.Sprint(v)
}

func Tag(tag string) {}
func Unwind(n int)   {}

// UnwindAssume states the assumption that no loop forks on symbolic data more than n times.
func UnwindAssume(n int) {}
func NewEpoch()      {}

// FreezeAll makes every object that exists at this point (heap, globals, closure
// environments) read-only for the rest of the path: a later store into any of them is a
// violation labelled `label`. Objects allocated afterwards are writable. Engine-only.
func FreezeAll(label string) {}

// Protect records the full capacity of b; CheckProtected asserts it is unchanged.
func Protect(b []byte, label string) {
	full := b[:cap(b)]
	protected = append(protected, protRec{full: full, snap: append([]byte(nil), full...), label: label})
}

func Unprotect(b []byte) {
	CheckProtected()
	protected = nil
}

// Freeze marks, under the engine, every object reachable from v as shared state that must
// not be written any more (the concurrency property's sufficient condition). Natively a no-op.
func Freeze(v any, label string) int { return 0 }

func CheckProtected() {
	for _, p := range protected {
		if !eq(p.full, p.snap) {
			Failures = append(Failures, fmt.Sprintf("write into %s: %x -> %x", p.label, p.snap, p.full))
		}
	}
}

// SameArray reports whether the capacity ranges of a and b overlap.
func SameArray(a, b []byte) bool {
	if cap(a) == 0 || cap(b) == 0 {
		return false
	}
	a0 := uintptr(unsafe.Pointer(unsafe.SliceData(a)))
	b0 := uintptr(unsafe.Pointer(unsafe.SliceData(b)))
	return a0 < b0+uintptr(cap(b)) && b0 < a0+uintptr(cap(a))
}

func ExpectPanic(f func()) (panicked bool) {
	defer func() {
		if r := recover(); r != nil {
			if _, ok := r.(SkipPath); ok {
				panic(r)
			}
			panicked = true
		}
	}()
	f()
	return false
}

// UF / UFInj / FreshBytes exist only for the environment models, which are never
// executed natively.
// Natively UF is some fixed function of (name, arguments): harness-defined stubs that are
// uninterpreted under the engine stay executable in replays (SHA-256 in counter mode).
func UF(name string, outLen int, args ...[]byte) []byte {
	h := sha256.New()
	h.Write([]byte(name))
	for _, a := range args {
		h.Write([]byte{byte(len(a) >> 8), byte(len(a))})
		h.Write(a)
	}
	seed := h.Sum(nil)
	out := make([]byte, 0, outLen+32)
	for i := 0; len(out) < outLen; i++ {
		b := sha256.Sum256(append(append([]byte{}, seed...), byte(i), byte(i>>8)))
		out = append(out, b[:]...)
	}
	return out[:outLen]
}
func UFInj(name string, outLen int, args ...[]byte) []byte { return UF(name, outLen, args...) }

func FreshBytes(label string, n int) []byte {
	k := seq[label]
	seq[label]++
	b := Bytes(fmt.Sprintf("%s#%d", label, k), n)
	draws = append(draws, b)
	return b
}

func Draws() int { return len(draws) }
func DrawBytes(i int) []byte {
	if i < 0 || i >= len(draws) {
		return nil
	}
	return draws[i]
}

// RecordDraw is used by the native deterministic rand.Reader.
func RecordDraw(b []byte) { draws = append(draws, append([]byte(nil), b...)) }

// CutNext asks the engine to replace the next value assigned to the source variable
// `name` (inside the code under test) by an arbitrary value in [lo, hi]. Natively a no-op.
func CutNext(name string, lo, hi uint64) {}

// CutValueOr returns the cut variable under the engine and real natively.
func CutValueOr(name string, real uint64) uint64 { return real }

// Summarize replaces, under the engine, every function whose qualified name ends in
// suffix by fn (which must have the same parameters, receiver first). The replacement is
// justified by a separate harness proving the function equal to fn (assume-guarantee).
// Natively a no-op: the real function runs.
func Summarize(suffix string, fn any) {}

func AssumeEq(a, b []byte)     { Assume(eq(a, b)) }
func EqBytes(a, b []byte) bool { return eq(a, b) }
// MemoPut / MemoGet are engine-only helpers for the environment models.
func MemoPut(table string, val []byte, key ...[]byte)        {}
func MemoGet(table string, key ...[]byte) ([]byte, bool)     { return nil, false }
func SameBytes(a, b []byte) bool { return eq(a, b) }
func And(a, b bool) bool       { return a && b }
func Or(a, b bool) bool        { return a || b }
func Not(a bool) bool          { return !a }
func Implies(a, b bool) bool   { return !a || b }

// EngineOnly marks a harness whose observations rely on engine-side summaries (recording
// stubs substituted for internal functions); natively the run is skipped and a violation is
// reported on the engine's verdict alone (the check's config sets no_replay for it).
func EngineOnly() { panic(SkipPath{"engine-only harness"}) }

// NativeSkip ends a native run that cannot follow the engine's (a summarised internal
// function, the system clock, ...). The run is then not used for translator validation.
func NativeSkip(why string) {
	if !Symbolic() {
		panic(SkipPath{"native-unsupported: " + why})
	}
}

func OpaqueString() string { return "<opaque>" }
