package verifrt

import (
	"crypto/rand"
	"fmt"
	"os"
	"runtime/debug"
	"strings"
)

type replayReader struct{}

func (replayReader) Read(b []byte) (int, error) {
	k := seq["rand"]
	seq["rand"]++
	name := fmt.Sprintf("rand#%d", k)
	for i := range b {
		b[i] = byte(val(name, i))
	}
	RecordDraw(b)
	return len(b), nil
}

// RunAll replays every file listed in $VERIF_REPLAY_LIST against the natively
// compiled harness functions and prints one VERIF-RESULT line per file.
func RunAll(fns map[string]func()) {
	list := os.Getenv("VERIF_REPLAY_LIST")
	if list == "" {
		return
	}
	b, err := os.ReadFile(list)
	if err != nil {
		fmt.Println("VERIF-ERROR", err)
		return
	}
	origReader := rand.Reader
	for _, f := range strings.Fields(string(b)) {
		os.Setenv("VERIF_REPLAY", f)
		Reset()
		fn := fns[cur.Harness]
		if fn == nil {
			fmt.Printf("VERIF-RESULT file=%s harness=%s status=missing detail=no such harness\n", f, cur.Harness)
			continue
		}
		useRand := false
		for k := range cur.Inputs {
			if strings.HasPrefix(k, "rand#") {
				useRand = true
			}
		}
		if useRand {
			rand.Reader = replayReader{}
		}
		status, detail := runOne(fn)
		rand.Reader = origReader
		for _, o := range Observed {
			fmt.Printf("VERIF-OBS file=%s obs=%s\n", f, o)
		}
		fmt.Printf("VERIF-RESULT file=%s harness=%s status=%s detail=%s\n", f, cur.Harness, status, strings.ReplaceAll(detail, "\n", " | "))
	}
}

func runOne(fn func()) (status, detail string) {
	defer func() {
		if r := recover(); r != nil {
			if s, ok := r.(SkipPath); ok {
				// an assertion that failed before the path was abandoned stays a failure
				// (under the engine the path ends at the first violated assertion)
				if len(Failures) > 0 {
					status, detail = "fail", strings.Join(Failures, "; ")
					return
				}
				status, detail = "skip", s.Why
				return
			}
			st := string(debug.Stack())
			// keep the frames below the panic
			if i := strings.Index(st, "panic("); i >= 0 {
				st = st[i:]
			}
			if len(st) > 1500 {
				st = st[:1500]
			}
			status, detail = "panic", fmt.Sprintf("%v :: %s", r, st)
		}
	}()
	fn()
	CheckProtected()
	if len(Failures) > 0 {
		return "fail", strings.Join(Failures, "; ")
	}
	return "ok", ""
}
