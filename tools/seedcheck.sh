#!/bin/bash
# usage: seedcheck.sh <worktree> <property> <seed-name> [tier]
# Confirms a seeded change (demo fails with it, passes without, touched packages' tests pass),
# stores it under /verif/seeded/<seed-name>/ and runs the property's check against it in /repo.
set -u
wt=$1; prop=$2; name=$3; tier=${4:-quick}
export GOFLAGS=-mod=mod GOPROXY=off
dst=/verif/seeded/$name; mkdir -p $dst
cp $wt/seed/patch.diff $wt/seed/demo_test.go $wt/seed/meta.json $dst/ 2>/dev/null
place=$(grep -m1 -o 'place in: *[^ ]*' $dst/demo_test.go | sed 's/place in: *//')
echo "demo dir: $place"
cd $wt || exit 2
git stash -q 2>/dev/null; git checkout -q -- . 2>/dev/null; git stash drop -q 2>/dev/null
cp $dst/demo_test.go $wt/$place/zz_seed_demo_test.go
tests=$(grep -o '^func Test[A-Za-z0-9_]*' $dst/demo_test.go | sed 's/func //' | paste -sd'|')
echo "== clean tree: demo must PASS"
go test -count=1 -run "^($tests)\$" ./$place 2>&1 | tail -3; clean=${PIPESTATUS[0]}
git apply $dst/patch.diff || { echo "PATCH DOES NOT APPLY"; exit 3; }
echo "== patched tree: demo must FAIL"
go test -count=1 -run "^($tests)\$" ./$place 2>&1 | tail -4; patched=${PIPESTATUS[0]}
rm -f $wt/$place/zz_seed_demo_test.go
echo "== patched tree: existing tests of touched packages"
pk=$(git diff --name-only | xargs -n1 dirname | sort -u | sed 's#^#./#' | paste -sd' ')
go test -count=1 $pk 2>&1 | tail -6; existing=${PIPESTATUS[0]}
git checkout -q -- .
echo "== check $prop $tier against the change (in /repo)"
cd /repo && git apply $dst/patch.diff && (cd /verif && timeout 3000 ./bin/vcheck $prop $tier > $dst/check_$tier.log 2>&1; echo "check exit=$?"); git -C /repo checkout -q -- .
grep -E "^(VIOLATION|UNCONFIRMED|KNOWN|SUMMARY)" $dst/check_$tier.log | cut -c1-220 | head -8
grep -E "^INCONCLUSIVE" $dst/check_$tier.log | cut -c1-200 | head -3
echo "RESULT clean_demo_rc=$clean patched_demo_rc=$patched existing_tests_rc=$existing"
git -C /repo status --short | head -3
