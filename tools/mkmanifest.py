#!/usr/bin/env python3
"""Regenerates MANIFEST.json from checks/*.json and tools/manifest_meta.json."""
import json, glob, os
meta = json.load(open('/verif/tools/manifest_meta.json'))
props = [json.loads(l)['id'] for l in open('/verif/properties.jsonl')]
checks = []
na = []
for pid in props:
    m = meta['properties'].get(pid, {})
    cfgp = f'/verif/checks/{pid}.json'
    if os.path.exists(cfgp) and m.get('claimed', False):
        cfg = json.load(open(cfgp))
        checks.append({
            "property_id": pid,
            "quick_cmd": f"/verif/bin/vcheck {pid} quick",
            "thorough_cmd": f"/verif/bin/vcheck {pid} thorough",
            "evidence_file": f"/verif/evidence/{pid}.json",
            "replay_cmd_template": "/verif/bin/vcheck --replay {path}",
            "engine": "gosym",
            "level_claimed": {"category": cfg.get("level", "model_checking"), "text": m["level_text"], "design_ref": m.get("design_ref", "DESIGN.md §3 " + pid)},
            "level_note": m["level_note"],
            "technique": m.get("technique", "bounded symbolic execution of the Go SSA of the real code into SMT (z3/cvc5), counterexamples replayed natively"),
        })
    else:
        na.append({"property_id": pid, "reason": m.get("na_reason", "check under construction in this session; not yet claimed")})
man = {
    "version": 1,
    "setup_cmd": "cd /verif/engine && GOTOOLCHAIN=local GOFLAGS=-mod=mod GOPROXY=off go1.26.8 build -o /verif/bin/ ./cmd/...",
    "hooks": {
        "guard": "verif (unused: harnesses, runtime and models are injected by go/packages and `go test` overlays; /repo carries no hook code)",
        "enable": "overlay: /verif/harness/<pkg>/zz_verif_*.go -> /repo/<pkg>/, /verif/harness/_rt -> /repo/internal/verifrt, /verif/harness/_models -> /repo/internal/verifmodels (nothing is written into /repo)",
        "baseline_off_cmd": meta["baseline_off_cmd"],
        "source_commits": meta.get("source_commits", []),
        "add_only": True,
    },
    "engines": [{"name": "gosym", "path": "/verif/engine", "serves_properties": [c["property_id"] for c in checks],
                 "kind_free_text": "bounded symbolic executor for Go SSA (golang.org/x/tools/go/ssa) emitting SMT-LIB2 to z3 4.8.12 / z3 5.1.0 / cvc5 1.0; native replay of solver models through go test -overlay"}],
    "checks": checks,
    "not_applicable": na,
    "notes": meta.get("notes", ""),
}
json.dump(man, open('/verif/MANIFEST.json', 'w'), indent=1)
print("claimed:", [c["property_id"] for c in checks], "n/a:", [n["property_id"] for n in na])
