#!/bin/bash
# runs every claimed check's quick (or given tier) command sequentially; prints one line each
tier=${1:-quick}
cd /verif
for p in $(python3 -c "import json;print(' '.join(c['property_id'] for c in json.load(open('MANIFEST.json'))['checks']))"); do
  s=$(date +%s)
  ./bin/vcheck $p $tier > out/run_$p.log 2>&1; rc=$?
  e=$(date +%s)
  echo "$p rc=$rc $((e-s))s $(grep -c '^INCONCLUSIVE' out/run_$p.log) inconclusive $(grep -c '^UNCONFIRMED' out/run_$p.log) unconfirmed $(grep -c '^TRANSLATOR' out/run_$p.log) mismatch | $(grep '^SUMMARY' out/run_$p.log | cut -c1-160)"
done
