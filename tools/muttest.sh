#!/bin/bash
# usage: muttest.sh <property> <tier> <repo-relative-file> <perl-substitution>
# Applies a one-line mutation to /repo, runs the check, and restores the file.
set -u
prop=$1; tier=$2; file=$3; subst=$4
cd /repo || exit 2
cp "$file" /tmp/muttest.bak
perl -0pi -e "$subst" "$file"
if cmp -s "$file" /tmp/muttest.bak; then echo "MUTATION DID NOT APPLY"; exit 3; fi
git diff --stat | tail -1
cd /verif && timeout 3000 ./bin/vcheck "$prop" "$tier" > /tmp/muttest.out 2>&1
rc=$?
cd /repo && cp /tmp/muttest.bak "$file" && git status --short | head -3
grep -E "^(VIOLATION|KNOWN|UNCONFIRMED|INCONCLUSIVE|TRANSLATOR|SUMMARY)" /tmp/muttest.out | head -12
echo "exit=$rc"
