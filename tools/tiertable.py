#!/usr/bin/env python3
# usage: tiertable.py <quick runall log> <thorough runall log>  -> markdown rows for DESIGN section 4
import re,sys
def parse(f):
    d={}
    for l in open(f):
        m=re.match(r'(C\d\d) rc=(\d+) (\d+)s (\d+) inconclusive (\d+) unconfirmed (\d+) mismatch \| SUMMARY .*?harnesses=(\d+) paths=(\d+) obligations=(\d+)',l)
        if m: d[m.group(1)]=m.groups()
    return d
q,t=parse(sys.argv[1]),parse(sys.argv[2])
print('| Property | harnesses | quick: wall / paths / obligations | thorough: wall / paths / obligations |\n|---|---|---|---|')
for c in sorted(q):
    a=q[c]; b=t.get(c)
    bs=f'{b[2]}s / {b[7]} / {b[8]}' if b else 'not re-run'
    flag='' if (a[1]=='0' and a[3]==a[4]==a[5]=='0' and (not b or (b[1]=='0' and b[3]==b[4]==b[5]=='0'))) else ' (!)'
    print(f'| {c} | {a[6]} | {a[2]}s / {a[7]} / {a[8]} | {bs}{flag} |')
